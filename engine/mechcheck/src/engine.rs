//! Generic property-based-testing engine: supervisor + crash-isolated workers, proptest-driven
//! generation and shrinking, known-finding handling, replay files, evidence.

use proptest::strategy::{BoxedStrategy, Strategy, ValueTree};
use proptest::test_runner::{Config, RngSeed, TestCaseError, TestError, TestRunner};
use serde::de::DeserializeOwned;
use serde::{Deserialize, Serialize};
use serde_json::{json, Value as J};
use std::cell::RefCell;
use std::collections::{BTreeMap, BTreeSet, HashSet};
use std::io::{BufRead, BufReader, Write};
use std::process::{Child, Command, Stdio};
use std::sync::mpsc;
use std::time::{Duration, Instant};

#[derive(Clone, Copy, Debug, PartialEq, Eq)]
pub enum Tier { Quick, Thorough }
impl Tier {
  pub fn name(&self) -> &'static str { match self { Tier::Quick => "quick", Tier::Thorough => "thorough" } }
  pub fn pick<T>(&self, q: T, t: T) -> T { match self { Tier::Quick => q, Tier::Thorough => t } }
}

#[derive(Clone, Debug)]
pub enum Status {
  Pass,
  /// property violated at the place named by `sig`
  Fail { sig: String, msg: String },
  /// case outside the judged domain (counted by reason)
  Discard(String),
  /// the generator produced something it must never produce (vacuity guard)
  Harness(String),
}

#[derive(Clone, Debug)]
pub struct Verdict {
  pub status: Status,
  pub labels: Vec<String>,
  /// distinct non-trivial key, if the case is non-trivial by the property's rule
  pub key: Option<String>,
  pub evals: u64,
}

impl Verdict {
  pub fn new() -> Verdict { Verdict { status: Status::Pass, labels: vec![], key: None, evals: 1 } }
  pub fn label(&mut self, l: impl Into<String>) { self.labels.push(l.into()); }
  pub fn fail(&mut self, sig: impl Into<String>, msg: impl Into<String>) {
    if let Status::Fail { .. } = self.status { return; }
    self.status = Status::Fail { sig: sig.into(), msg: msg.into() };
  }
  pub fn discard(&mut self, why: impl Into<String>) {
    if let Status::Pass = self.status { self.status = Status::Discard(why.into()); }
  }
  pub fn harness(&mut self, why: impl Into<String>) { self.status = Status::Harness(why.into()); }
  pub fn failed(&self) -> bool { matches!(self.status, Status::Fail { .. }) }
}

pub struct Cx {
  pub tier: Tier,
  pub known: Known,
  /// strict replay: no tolerance switches
  pub replay: bool,
}

pub trait Prop {
  type Case: Clone + std::fmt::Debug + Serialize + DeserializeOwned + Send + 'static;
  const ID: &'static str;
  /// number of generated (random) cases
  fn budget(tier: Tier) -> u32;
  /// per-case watchdog
  fn timeout_ms(_tier: Tier) -> u64 { 30_000 }
  fn crash_is_violation() -> bool { true }
  fn timeout_is_violation() -> bool { false }
  /// bound on proptest's shrink executions per failure (a fixed count, never a time limit); lower for properties whose cases are expensive
  fn max_shrink_iters() -> u32 { 4000 }
  fn strategy(tier: Tier, known: &Known) -> BoxedStrategy<Self::Case>;
  /// enumerated cases (exhaustive sub-spaces, corpora); run before the random ones
  fn fixed_cases(_tier: Tier) -> Vec<Self::Case> { vec![] }
  fn check(case: &Self::Case, cx: &Cx) -> Verdict;
  fn describe(case: &Self::Case) -> String { serde_json::to_string(case).unwrap_or_default() }
  /// signature for a crash/hang on this case (must name the place, not just the property)
  fn crash_sig(_case: &Self::Case, what: &str) -> String { format!("{}|{}", Self::ID, what) }
  fn rule() -> &'static str;
  fn assumptions() -> Vec<String> { vec![] }
  fn exhaustive_note(_tier: Tier) -> Option<String> { None }
  /// for properties whose timeouts are normally only counted: a signature if a budget overrun on THIS case is nevertheless a violation
  /// (e.g. a tiny input that cannot legitimately need the whole budget)
  fn hang_sig(_case: &Self::Case) -> Option<String> { None }
  fn rlimit_as_mb() -> u64 { 6144 }
  /// stack of the thread that runs the cases (large by default so that debug-build frame sizes do not masquerade as defects)
  fn stack_mb() -> usize { 1024 }
}

// ------------------------------------------------------------------------------------------
// Known findings

#[derive(Clone, Debug, Serialize, Deserialize)]
pub struct KnownEntry {
  pub property: String,
  pub signature: String,
  pub what_fails: String,
  #[serde(default)]
  pub example: Option<J>,
  pub status: String, // "known" | "fixed:<commit>"
}

#[derive(Clone, Debug, Default)]
pub struct Known { pub entries: Vec<KnownEntry> }

impl Known {
  pub fn load(prop: &str) -> Known {
    let path = format!("{}/known_findings.json", verif_dir());
    let mut k = Known::default();
    if let Ok(s) = std::fs::read_to_string(&path) {
      if let Ok(v) = serde_json::from_str::<Vec<KnownEntry>>(&s) {
        k.entries = v.into_iter().filter(|e| e.property == prop).collect();
      } else {
        eprintln!("warning: {} does not parse", path);
      }
    }
    k
  }
  /// entry whose signature matches (exact, or prefix when the entry ends with '*') and is "known"
  pub fn find(&self, sig: &str) -> Option<&KnownEntry> {
    self.entries.iter().find(|e| e.status == "known" && sig_match(&e.signature, sig))
  }
  /// true when some *known* entry matches this pattern — used by generators as exclusion switch
  pub fn has(&self, sig: &str) -> bool { self.find(sig).is_some() }
}

fn sig_match(pat: &str, sig: &str) -> bool {
  if let Some(p) = pat.strip_suffix('*') { sig.starts_with(p) } else { pat == sig }
}

pub fn verif_dir() -> String { std::env::var("VERIF_DIR").unwrap_or_else(|_| "/verif".to_string()) }

// ------------------------------------------------------------------------------------------
// Worker

fn splitmix(mut x: u64) -> u64 {
  x = x.wrapping_add(0x9E3779B97F4A7C15);
  let mut z = x;
  z = (z ^ (z >> 30)).wrapping_mul(0xBF58476D1CE4E5B9);
  z = (z ^ (z >> 27)).wrapping_mul(0x94D049BB133111EB);
  z ^ (z >> 31)
}
fn str_hash(s: &str) -> u64 {
  let mut h: u64 = 0xcbf29ce484222325;
  for b in s.bytes() { h ^= b as u64; h = h.wrapping_mul(0x100000001b3); }
  h
}

pub struct WorkerArgs {
  pub tier: Tier,
  pub seed: u64,
  pub index: u32,
  pub of: u32,
  pub skip_fixed: u32,
  pub skip_rand: u32,
  pub replays: Vec<String>, // files (only given to worker 0)
  pub skip_replays: u32,
  pub skip_pins: u32,
}

fn emit(out: &mut impl Write, v: &J, flush: bool) {
  let _ = writeln!(out, "{}", v);
  if flush { let _ = out.flush(); }
}

fn set_rlimit_as(mb: u64) {
  unsafe {
    let lim = libc::rlimit { rlim_cur: (mb * 1024 * 1024) as libc::rlim_t, rlim_max: (mb * 1024 * 1024) as libc::rlim_t };
    libc::setrlimit(libc::RLIMIT_AS, &lim);
    // no core dumps
    let z = libc::rlimit { rlim_cur: 0, rlim_max: 0 };
    libc::setrlimit(libc::RLIMIT_CORE, &z);
  }
}

fn verdict_json(i: u64, phase: &str, v: &Verdict, known: &Known, desc: Option<String>) -> J {
  let (st, sig, msg) = match &v.status {
    Status::Pass => ("pass", None, None),
    Status::Discard(w) => ("discard", Some(w.clone()), None),
    Status::Harness(w) => ("harness", None, Some(w.clone())),
    Status::Fail { sig, msg } => {
      if known.find(sig).is_some() { ("known", Some(sig.clone()), Some(msg.clone())) } else { ("fail", Some(sig.clone()), Some(msg.clone())) }
    }
  };
  json!({"t":"E","i":i,"ph":phase,"st":st,"sig":sig,"msg":msg,"labels":v.labels,"key":v.key,"evals":v.evals,"d":desc})
}

pub fn worker_main<P: Prop>(a: WorkerArgs) {
  crate::mech::install_quiet_panic_hook();
  set_rlimit_as(P::rlimit_as_mb());
  let child = std::thread::Builder::new().stack_size(P::stack_mb() << 20).spawn(move || worker_body::<P>(a)).expect("spawn");
  let _ = child.join();
}

fn run_checked<P: Prop>(case: &P::Case, cx: &Cx) -> Verdict {
  match std::panic::catch_unwind(std::panic::AssertUnwindSafe(|| P::check(case, cx))) {
    Ok(v) => v,
    Err(e) => {
      let mut v = Verdict::new();
      v.harness(format!("check panicked: {}", crate::mech::panic_msg(e)));
      v
    }
  }
}

fn worker_body<P: Prop>(a: WorkerArgs) {
  let stdout = std::io::stdout();
  let out = RefCell::new(std::io::BufWriter::new(stdout.lock()));
  let known = Known::load(P::ID);
  let cx = Cx { tier: a.tier, known: known.clone(), replay: false };

  // phase R: committed replays and known-finding pins (worker 0 only)
  for (ri, path) in a.replays.iter().enumerate() {
    if (ri as u32) < a.skip_replays { continue; }
    let Ok(txt) = std::fs::read_to_string(path) else { continue };
    let Ok(j) = serde_json::from_str::<J>(&txt) else { continue };
    let Ok(case) = serde_json::from_value::<P::Case>(j["case"].clone()) else {
      emit(&mut *out.borrow_mut(), &json!({"t":"E","i":ri,"ph":"R","st":"harness","msg":format!("replay file {} does not decode", path),"labels":[],"key":null,"evals":0}), true);
      continue;
    };
    emit(&mut *out.borrow_mut(), &json!({"t":"B","i":ri,"ph":"R","case":serde_json::to_value(&case).unwrap(),"path":path}), true);
    let v = run_checked::<P>(&case, &cx);
    let mut e = verdict_json(ri as u64, "R", &v, &known, Some(P::describe(&case)));
    e["path"] = json!(path);
    emit(&mut *out.borrow_mut(), &e, true);
  }
  // known-finding pins
  if a.index == 0 {
    for (ki, e) in known.entries.iter().enumerate() {
      if (ki as u32) < a.skip_pins { continue; }
      if e.status.starts_with("fixed") {
        // the example of a repaired defect is a plain regression case: it suppresses nothing and must pass now
        if let Some(case) = e.example.as_ref().and_then(|ex| serde_json::from_value::<P::Case>(ex.clone()).ok()) {
          emit(&mut *out.borrow_mut(), &json!({"t":"B","i":ki,"ph":"X","case":e.example}), true);
          let v = run_checked::<P>(&case, &cx);
          let failed = match &v.status { Status::Fail { sig, .. } => known.find(sig).is_none(), _ => false };
          emit(&mut *out.borrow_mut(), &verdict_json(ki as u64, "X", &v, &known, Some(P::describe(&case))), failed);
          if let (true, Status::Fail { sig, msg }) = (failed, &v.status) {
            emit(&mut *out.borrow_mut(), &json!({"t":"F","case":e.example,"sig":sig,"msg":format!("regression of the defect repaired in {}: {}", e.status, msg),"d":P::describe(&case)}), true);
          }
        }
        continue;
      }
      if e.status != "known" { continue; }
      let Some(ex) = &e.example else { continue };
      let Ok(case) = serde_json::from_value::<P::Case>(ex.clone()) else {
        emit(&mut *out.borrow_mut(), &json!({"t":"E","i":ki,"ph":"K","st":"harness","msg":format!("known-finding example for {} does not decode", e.signature),"labels":[],"key":null,"evals":0}), true);
        continue;
      };
      emit(&mut *out.borrow_mut(), &json!({"t":"B","i":ki,"ph":"K","case":ex,"pin":e.signature}), true);
      let v = run_checked::<P>(&case, &cx);
      let mut ej = verdict_json(ki as u64, "K", &v, &known, Some(P::describe(&case)));
      ej["pin"] = json!(e.signature);
      emit(&mut *out.borrow_mut(), &ej, true);
    }
  }

  // phase X: fixed (enumerated) cases, round-robin over workers
  let fixed = P::fixed_cases(a.tier);
  let nfixed = fixed.len();
  let stride_f = (nfixed / (a.of as usize).max(1) / 3).max(1);
  let mut mine = 0usize;
  for (j, case) in fixed.iter().enumerate() {
    if (j as u32) % a.of != a.index { continue; }
    mine += 1;
    if (j as u32) < a.skip_fixed { continue; }
    emit(&mut *out.borrow_mut(), &json!({"t":"B","i":j,"ph":"X","case":serde_json::to_value(case).unwrap()}), true);
    let v = run_checked::<P>(case, &cx);
    let d = if mine <= 2 || mine % stride_f == 0 { Some(P::describe(case)) } else { None };
    let failed = v.failed() && match &v.status { Status::Fail { sig, .. } => known.find(sig).is_none(), _ => false };
    emit(&mut *out.borrow_mut(), &verdict_json(j as u64, "X", &v, &known, d), failed);
    if failed {
      if let Status::Fail { sig, msg } = &v.status {
        emit(&mut *out.borrow_mut(), &json!({"t":"F","case":serde_json::to_value(case).unwrap(),"sig":sig,"msg":msg,"d":P::describe(case)}), true);
      }
    }
  }

  // phase G: generated cases
  let total = P::budget(a.tier);
  let per = total / a.of + if a.index < total % a.of { 1 } else { 0 };
  let wseed = splitmix(a.seed ^ splitmix(str_hash(P::ID)) ^ splitmix(a.index as u64 + 1));
  let config = Config {
    cases: 1,
    failure_persistence: None,
    rng_seed: RngSeed::Fixed(wseed),
    max_shrink_iters: P::max_shrink_iters(),
    max_shrink_time: 0,
    ..Config::default()
  };
  let mut runner = TestRunner::new(config);
  let strat = P::strategy(a.tier, &known);
  let stride = (per / 4).max(1);
  let reported: RefCell<HashSet<String>> = RefCell::new(HashSet::new());
  for i in 0..per {
    let tree = match strat.new_tree(&mut runner) {
      Ok(t) => t,
      Err(e) => {
        emit(&mut *out.borrow_mut(), &json!({"t":"E","i":i,"ph":"G","st":"harness","msg":format!("strategy rejected: {}", e),"labels":[],"key":null,"evals":0}), true);
        continue;
      }
    };
    if i < a.skip_rand { continue; }
    let first = RefCell::new(true);
    let last_fail: RefCell<Option<(String, String)>> = RefCell::new(None);
    let res = runner.run_one(tree, |case: P::Case| {
      let is_first = *first.borrow();
      *first.borrow_mut() = false;
      let ph = if is_first { "G" } else { "S" };
      emit(&mut *out.borrow_mut(), &json!({"t":"B","i":i,"ph":ph,"case":serde_json::to_value(&case).unwrap()}), true);
      let v = run_checked::<P>(&case, &cx);
      let d = if is_first && (i < 2 || i % stride == 0) { Some(P::describe(&case)) } else { None };
      emit(&mut *out.borrow_mut(), &verdict_json(i as u64, ph, &v, &known, d), false);
      match &v.status {
        Status::Fail { sig, msg } if known.find(sig).is_none() => {
          // a signature this worker has already shrunk and reported is not shrunk again (the campaign continues behind it)
          if is_first && reported.borrow().contains(sig) { return Ok(()); }
          *last_fail.borrow_mut() = Some((sig.clone(), msg.clone()));
          Err(TestCaseError::fail(sig.clone()))
        }
        _ => Ok(()),
      }
    });
    if let Err(TestError::Fail(_, minimal)) = res {
      // re-run the minimal case to get its own signature/message
      let v = run_checked::<P>(&minimal, &cx);
      let (sig, msg) = match &v.status {
        Status::Fail { sig, msg } => (sig.clone(), msg.clone()),
        _ => last_fail.borrow().clone().unwrap_or(("?".into(), "minimal case did not fail on re-run".into())),
      };
      if reported.borrow_mut().insert(sig.clone()) {
        emit(&mut *out.borrow_mut(), &json!({"t":"F","case":serde_json::to_value(&minimal).unwrap(),"sig":sig,"msg":msg,"d":P::describe(&minimal)}), true);
      }
      if reported.borrow().len() >= 3 { break; }
    }
  }
  emit(&mut *out.borrow_mut(), &json!({"t":"D"}), true);
}

// ------------------------------------------------------------------------------------------
// Supervisor

struct WState {
  child: Child,
  last_begin: Option<(Instant, J)>, // time + B record
  done: bool,
  gen: u32, // respawn generation
  next_fixed: u32,
  next_rand: u32,
  next_replay: u32,
  next_pin: u32,
}

enum Msg { Line(usize, u32, String), Eof(usize, u32) }

fn spawn_worker(id: &str, tier: Tier, seed: u64, index: u32, of: u32, skip_fixed: u32, skip_rand: u32, replays: &[String], tx: &mpsc::Sender<Msg>, gen: u32, skip_replays: u32, skip_pins: u32) -> Child {
  let exe = std::env::current_exe().expect("exe");
  let mut cmd = Command::new(exe);
  cmd.arg("worker").arg(id).arg("--tier").arg(tier.name()).arg("--seed").arg(seed.to_string())
    .arg("--index").arg(index.to_string()).arg("--of").arg(of.to_string())
    .arg("--skip-fixed").arg(skip_fixed.to_string()).arg("--skip-rand").arg(skip_rand.to_string())
    .arg("--skip-replays").arg(skip_replays.to_string()).arg("--skip-pins").arg(skip_pins.to_string());
  for r in replays { cmd.arg("--replay-file").arg(r); }
  cmd.stdin(Stdio::null()).stdout(Stdio::piped()).stderr(Stdio::null());
  let mut child = cmd.spawn().expect("spawn worker");
  let so = child.stdout.take().unwrap();
  let tx = tx.clone();
  let widx = index as usize;
  std::thread::spawn(move || {
    let rd = BufReader::with_capacity(1 << 16, so);
    for line in rd.lines() {
      match line { Ok(l) => { if tx.send(Msg::Line(widx, gen, l)).is_err() { break; } } Err(_) => break }
    }
    let _ = tx.send(Msg::Eof(widx, gen));
  });
  child
}

#[derive(Default)]
struct Agg {
  evaluations: u64,
  cases: u64,
  keys: BTreeSet<String>,
  labels: BTreeMap<String, u64>,
  discards: BTreeMap<String, u64>,
  known_hits: BTreeMap<String, u64>,
  harness: Vec<String>,
  samples: Vec<String>,
  timeouts: Vec<J>,
  crashes: Vec<J>,
  replays_rerun: u64,
  pins_ok: Vec<String>,
  pins_gone: Vec<String>,
  violations: Vec<(String, String, J, Option<String>, Option<String>)>, // sig,msg,case,desc,existing replay path
  shrink_execs: u64,
}

pub struct RunOpts { pub tier: Tier, pub seed: u64, pub workers: u32 }

pub fn supervisor_main<P: Prop>(o: RunOpts) -> i32 {
  let t0 = Instant::now();
  let id = P::ID;
  let known = Known::load(id);
  let of = o.workers.max(1);
  let replay_dir = format!("{}/replays/{}", verif_dir(), id);
  let mut replays: Vec<String> = std::fs::read_dir(&replay_dir).map(|rd| rd.filter_map(|e| e.ok()).map(|e| e.path().to_string_lossy().to_string()).filter(|p| p.ends_with(".json")).collect()).unwrap_or_default();
  replays.sort();
  let (tx, rx) = mpsc::channel::<Msg>();
  let mut ws: Vec<WState> = vec![];
  for i in 0..of {
    let r: &[String] = if i == 0 { &replays } else { &[] };
    let child = spawn_worker(id, o.tier, o.seed, i, of, 0, 0, r, &tx, 0, 0, 0);
    ws.push(WState { child, last_begin: None, done: false, gen: 0, next_fixed: 0, next_rand: 0, next_replay: 0, next_pin: 0 });
  }
  let mut agg = Agg::default();
  let timeout = Duration::from_millis(P::timeout_ms(o.tier));
  let mut respawns = 0u32;
  // (a worker is respawned after every case that hangs or kills it; listed findings of that kind — the C06 tuple hang, the C07 set-constant
  // hang — are met in proportion to the budget, so the cap scales with it)
  let max_respawns = 400u32.max(P::budget(o.tier) / 40);

  let replays_for_respawn = replays.clone();
  let handle_death = |w: &mut WState, agg: &mut Agg, what: &str, widx: usize, tx: &mpsc::Sender<Msg>, respawns: &mut u32| {
    // culprit = last B without E
    let culprit = w.last_begin.take();
    if let Some((_, b)) = culprit {
      let rec = json!({"what": what, "phase": b["ph"], "i": b["i"], "case": b["case"], "pin": b["pin"]});
      if what == "timeout" { agg.timeouts.push(rec); } else { agg.crashes.push(rec); }
      // advance past the culprit
      let ph = b["ph"].as_str().unwrap_or("G").to_string();
      let i = b["i"].as_u64().unwrap_or(0) as u32;
      match ph.as_str() {
        "X" => { w.next_fixed = i + 1; }
        "G" | "S" => { w.next_rand = i + 1; w.next_fixed = u32::MAX; }
        "R" => { w.next_replay = i + 1; }
        "K" => { w.next_pin = i + 1; w.next_replay = u32::MAX; }
        _ => {}
      }
    } else {
      agg.harness.push(format!("worker {} died ({}) outside a case", widx, what));
      w.done = true;
      return;
    }
    if *respawns >= max_respawns { w.done = true; agg.harness.push("too many worker respawns".into()); return; }
    *respawns += 1;
    w.gen += 1;
    let rp: Vec<String> = if widx == 0 { replays_for_respawn.clone() } else { vec![] };
    w.child = spawn_worker(id, o.tier, o.seed, widx as u32, of, w.next_fixed, w.next_rand, &rp, tx, w.gen, w.next_replay, w.next_pin);
  };

  loop {
    if ws.iter().all(|w| w.done) { break; }
    match rx.recv_timeout(Duration::from_millis(200)) {
      Ok(Msg::Line(widx, gen, line)) => {
        if ws[widx].gen != gen { continue; }
        let Ok(j) = serde_json::from_str::<J>(&line) else { continue };
        match j["t"].as_str().unwrap_or("") {
          "B" => { ws[widx].last_begin = Some((Instant::now(), j)); }
          "E" => {
            let ph = j["ph"].as_str().unwrap_or("G").to_string();
            let b = ws[widx].last_begin.take();
            let i = j["i"].as_u64().unwrap_or(0) as u32;
            match ph.as_str() { "X" => ws[widx].next_fixed = i + 1, "G" => { ws[widx].next_rand = i + 1; ws[widx].next_fixed = u32::MAX; } _ => {} }
            let st = j["st"].as_str().unwrap_or("");
            if ph == "S" { agg.shrink_execs += 1; continue; }
            if ph == "K" {
              let pin = j["pin"].as_str().unwrap_or("").to_string();
              if st == "known" { agg.pins_ok.push(pin); } else if st == "fail" {
                agg.violations.push((j["sig"].as_str().unwrap_or("").to_string(), format!("known-finding pin for {} now fails with a different signature: {}", pin, j["msg"].as_str().unwrap_or("")), b.map(|x| x.1["case"].clone()).unwrap_or(J::Null), j["d"].as_str().map(|s| s.to_string()), None));
              } else { agg.pins_gone.push(pin); }
              continue;
            }
            if ph == "R" { agg.replays_rerun += 1; }
            agg.cases += 1;
            agg.evaluations += j["evals"].as_u64().unwrap_or(1);
            if let Some(ls) = j["labels"].as_array() { for l in ls { if let Some(s) = l.as_str() { *agg.labels.entry(s.to_string()).or_insert(0) += 1; } } }
            if let Some(d) = j["d"].as_str() { if agg.samples.len() < 40 { agg.samples.push(d.to_string()); } }
            match st {
              "pass" => { if let Some(k) = j["key"].as_str() { agg.keys.insert(k.to_string()); } }
              "discard" => { *agg.discards.entry(j["sig"].as_str().unwrap_or("?").to_string()).or_insert(0) += 1; }
              "known" => { *agg.known_hits.entry(j["sig"].as_str().unwrap_or("?").to_string()).or_insert(0) += 1; }
              "harness" => { if agg.harness.len() < 20 { agg.harness.push(j["msg"].as_str().unwrap_or("?").to_string()); } }
              "fail" => {
                if ph == "R" {
                  agg.violations.push((j["sig"].as_str().unwrap_or("").to_string(), j["msg"].as_str().unwrap_or("").to_string(), b.map(|x| x.1["case"].clone()).unwrap_or(J::Null), j["d"].as_str().map(|s| s.to_string()), j["path"].as_str().map(|s| s.to_string())));
                }
              }
              _ => {}
            }
          }
          "F" => {
            agg.violations.push((j["sig"].as_str().unwrap_or("").to_string(), j["msg"].as_str().unwrap_or("").to_string(), j["case"].clone(), j["d"].as_str().map(|s| s.to_string()), None));
          }
          "D" => { ws[widx].done = true; ws[widx].last_begin = None; let _ = ws[widx].child.wait(); }
          _ => {}
        }
      }
      Ok(Msg::Eof(widx, gen)) => {
        if ws[widx].gen != gen || ws[widx].done { continue; }
        // died without D
        let status = ws[widx].child.wait().ok();
        let what = match status {
          Some(s) => { use std::os::unix::process::ExitStatusExt; if let Some(sig) = s.signal() { format!("signal{}", sig) } else { format!("exit{}", s.code().unwrap_or(-1)) } }
          None => "unknown".into(),
        };
        let mut w = std::mem::replace(&mut ws[widx], WState { child: Command::new("true").spawn().unwrap(), last_begin: None, done: true, gen: 0, next_fixed: 0, next_rand: 0, next_replay: 0, next_pin: 0 });
        handle_death(&mut w, &mut agg, &what, widx, &tx, &mut respawns);
        ws[widx] = w;
      }
      Err(mpsc::RecvTimeoutError::Timeout) => {}
      Err(mpsc::RecvTimeoutError::Disconnected) => break,
    }
    // watchdog
    for widx in 0..ws.len() {
      if ws[widx].done { continue; }
      let over = match &ws[widx].last_begin { Some((t, _)) => t.elapsed() > timeout, None => false };
      if over {
        let _ = ws[widx].child.kill();
        let _ = ws[widx].child.wait();
        let mut w = std::mem::replace(&mut ws[widx], WState { child: Command::new("true").spawn().unwrap(), last_begin: None, done: true, gen: 0, next_fixed: 0, next_rand: 0, next_replay: 0, next_pin: 0 });
        w.gen += 1; // invalidate pending lines from the killed worker
        handle_death(&mut w, &mut agg, "timeout", widx, &tx, &mut respawns);
        ws[widx] = w;
      }
    }
  }

  // crashes / timeouts → violations where the property says so
  let mut exit2_reasons: Vec<String> = vec![];
  let crash_list = std::mem::take(&mut agg.crashes);
  for c in &crash_list {
    let what = c["what"].as_str().unwrap_or("crash").to_string();
    match serde_json::from_value::<P::Case>(c["case"].clone()) {
      Ok(case) => {
        let sig = P::crash_sig(&case, &format!("crash:{}", what));
        if known.find(&sig).is_some() { if let Some(pin) = c["pin"].as_str() { agg.pins_ok.push(pin.to_string()); } else { *agg.known_hits.entry(sig).or_insert(0) += 1; } }
        else if P::crash_is_violation() { agg.violations.push((sig, format!("worker process died ({}) while evaluating this case", what), c["case"].clone(), Some(P::describe(&case)), None)); }
        else { exit2_reasons.push(format!("worker died ({}) on a case", what)); }
      }
      Err(_) => exit2_reasons.push("crash payload does not decode".into()),
    }
  }
  let to_list = std::mem::take(&mut agg.timeouts);
  for c in &to_list {
    if let Ok(case) = serde_json::from_value::<P::Case>(c["case"].clone()) {
      let sig = P::crash_sig(&case, "hang");
      if known.find(&sig).is_some() { if let Some(pin) = c["pin"].as_str() { agg.pins_ok.push(pin.to_string()); } else { *agg.known_hits.entry(sig).or_insert(0) += 1; } }
      else if P::timeout_is_violation() { agg.violations.push((sig, format!("case did not finish within {} ms", P::timeout_ms(o.tier)), c["case"].clone(), Some(P::describe(&case)), None)); }
      else if let Some(hs) = P::hang_sig(&case) { if known.find(&hs).is_none() { agg.violations.push((hs, format!("case did not finish within {} ms", P::timeout_ms(o.tier)), c["case"].clone(), Some(P::describe(&case)), None)); } }
    }
  }
  if !P::timeout_is_violation() && (to_list.len() as u64) * 100 > agg.cases.max(1) { exit2_reasons.push(format!("{} of {} cases timed out", to_list.len(), agg.cases)); }
  if !agg.harness.is_empty() { exit2_reasons.push(format!("harness errors: {:?}", &agg.harness[..agg.harness.len().min(3)])); }

  // write replays for violations (dedupe by signature)
  let mut seen = BTreeSet::new();
  let mut vio_lines = vec![];
  for (sig, msg, case, desc, existing) in &agg.violations {
    if !seen.insert(sig.clone()) { continue; }
    let path = match existing {
      Some(p) => p.clone(),
      None => {
        let _ = std::fs::create_dir_all(&replay_dir);
        let h = str_hash(&format!("{}{}", sig, case));
        let safe: String = sig.chars().map(|c| if c.is_ascii_alphanumeric() || c == '-' || c == '_' { c } else { '_' }).take(60).collect();
        let p = format!("{}/{}-{:08x}.json", replay_dir, safe, h as u32);
        let body = json!({"property": id, "seed": o.seed, "tier": o.tier.name(), "signature": sig, "message": msg, "describe": desc, "case": case});
        let _ = std::fs::write(&p, serde_json::to_string_pretty(&body).unwrap());
        p
      }
    };
    vio_lines.push((sig.clone(), msg.clone(), desc.clone(), path));
  }

  // report
  // one line per listed finding (entry), with the number of generated cases that hit it
  let mut per_entry: BTreeMap<String, (String, u64, bool)> = BTreeMap::new();
  for (sig, n) in &agg.known_hits {
    if let Some(e) = known.find(sig) { let ent = per_entry.entry(e.signature.clone()).or_insert((e.what_fails.clone(), 0, false)); ent.1 += n; }
  }
  for pin in &agg.pins_ok {
    if let Some(e) = known.entries.iter().find(|e| &e.signature == pin) { let ent = per_entry.entry(e.signature.clone()).or_insert((e.what_fails.clone(), 0, true)); ent.2 = true; }
  }
  for (sig, (what, n, pin)) in &per_entry {
    println!("KNOWN-FINDING: property={} {} [signature {}; generated cases hitting it: {}; pinned example reproduces: {}]", id, what, sig, n, pin);
  }
  for pin in &agg.pins_gone { println!("note: known finding {} no longer reproduces from its pinned example", pin); }

  let wall = t0.elapsed().as_secs_f64();
  // samples: first 5 + 5 evenly spaced
  let mut samples: Vec<String> = vec![];
  let n = agg.samples.len();
  for (i, s) in agg.samples.iter().enumerate() { if i < 5 || (n > 10 && i % (n / 5).max(1) == 0 && samples.len() < 10) { samples.push(s.clone()); } }
  let ev = json!({
    "property_id": id,
    "tier": o.tier.name(),
    "seed": o.seed,
    "level": "exploration",
    "coverage": {
      "evaluations": agg.evaluations,
      "cases": agg.cases,
      "distinct_nontrivial": agg.keys.len(),
      "rule": P::rule(),
      "samples": samples,
      "classes": agg.labels,
      "discarded": agg.discards,
      "excluded_known": agg.known_hits,
      "known_pins_reproduced": agg.pins_ok,
      "known_pins_not_reproduced": agg.pins_gone,
      "timeouts": to_list.len(),
      "timeout_samples": to_list.iter().filter_map(|c| serde_json::from_value::<P::Case>(c["case"].clone()).ok()).take(8).map(|c| P::describe(&c)).collect::<Vec<_>>(),
      "crashes": crash_list.len(),
      "worker_respawns": respawns,
      "replays_rerun": agg.replays_rerun,
      "shrink_executions": agg.shrink_execs,
      "exhaustive": P::exhaustive_note(o.tier).is_some(),
      "exhaustive_note": P::exhaustive_note(o.tier),
      "workers": of,
    },
    "assumptions": P::assumptions(),
    "wall_s": wall,
    "violations": vio_lines.len(),
  });
  let evdir = format!("{}/evidence", verif_dir());
  let _ = std::fs::create_dir_all(&evdir);
  let _ = std::fs::write(format!("{}/{}.json", evdir, id), serde_json::to_string_pretty(&ev).unwrap());

  println!("{} tier={} seed={} cases={} evaluations={} distinct_nontrivial={} known_hits={} timeouts={} crashes={} wall={:.1}s",
    id, o.tier.name(), o.seed, agg.cases, agg.evaluations, agg.keys.len(), agg.known_hits.values().sum::<u64>(), to_list.len(), crash_list.len(), wall);
  if !vio_lines.is_empty() {
    for (sig, msg, desc, path) in &vio_lines {
      println!("violation signature: {}", sig);
      println!("  {}", msg);
      if let Some(d) = desc { println!("  case: {}", d); }
      println!("VIOLATION property={} replay={}", id, path);
    }
    return 1;
  }
  if !exit2_reasons.is_empty() {
    for r in &exit2_reasons { println!("INCONCLUSIVE: {}", r); }
    return 2;
  }
  0
}

/// `mechcheck replay <file>`: strict re-execution of one saved case, bypassing proptest.
pub fn replay_main<P: Prop>(path: &str) -> i32 {
  crate::mech::install_quiet_panic_hook();
  let txt = std::fs::read_to_string(path).expect("read replay");
  let j: J = serde_json::from_str(&txt).expect("json");
  let case: P::Case = serde_json::from_value(j["case"].clone()).expect("case");
  let known = Known::load(P::ID);
  let cx = Cx { tier: Tier::Quick, known: known.clone(), replay: true };
  let h = std::thread::Builder::new().stack_size(P::stack_mb() << 20).spawn(move || {
    println!("case: {}", P::describe(&case));
    { use std::io::Write; let _ = std::io::stdout().flush(); }
    let v = P::check(&case, &cx);
    match &v.status {
      Status::Fail { sig, msg } => {
        println!("signature: {}\n{}", sig, msg);
        if let Some(e) = cx.known.find(sig) { println!("KNOWN-FINDING: property={} {}", P::ID, e.what_fails); 0 } else { 1 }
      }
      other => { println!("status: {:?}", other); 0 }
    }
  }).unwrap();
  let code = h.join().unwrap_or(3);
  if code == 1 { println!("VIOLATION property={} replay={}", P::ID, path); }
  code
}
