//! Shared generators: scalar value pools per kind, operands (scalar / matrix) and the source text
//! that constructs them *exactly* (Mech integer literals go through f64, so values beyond 2^53
//! are built from `0d…` literals and arithmetic; every construction is verified by read-back).

use crate::kinds::*;
use crate::mech::*;
use crate::rval::*;
use num_bigint::BigInt;
use num_traits::{Signed, ToPrimitive, Zero};
use proptest::prelude::*;
use serde::{Deserialize, Serialize};

#[derive(Clone, Copy, Debug, PartialEq, Eq)]
pub enum Pool { Small, Boundary, Mixed }

fn int_from_raw(k: K, raw: u128) -> Sc {
  let b = k.bits();
  let v = if b == 128 { raw } else { raw & ((1u128 << b) - 1) };
  if k.is_signed() {
    // two's complement reinterpretation at width b; raw = 0 ⇒ 0 (shrink target)
    let sv: i128 = if b == 128 { v as i128 } else if v >> (b - 1) & 1 == 1 { (v as i128) - (1i128 << b) } else { v as i128 };
    Sc::I(b as u8, sv)
  } else {
    Sc::U(b as u8, v)
  }
}

pub fn int_boundaries(k: K) -> Vec<Sc> {
  let mut out: Vec<BigInt> = vec![k.min_int(), k.min_int() + 1, k.max_int(), k.max_int() - 1, BigInt::from(0), BigInt::from(1), BigInt::from(2)];
  if k.is_signed() { out.push(BigInt::from(-1)); out.push(BigInt::from(-2)); }
  for p in [7u32, 8, 15, 16, 24, 31, 32, 53, 63, 64, 127] {
    for d in [-1i32, 0, 1] {
      let v = (BigInt::from(1) << p) + d;
      if k.fits(&v) { out.push(v.clone()); }
      if k.fits(&-v.clone()) { out.push(-v); }
    }
  }
  out.sort();
  out.dedup();
  out.into_iter().map(|v| k.int_sc(&v)).collect()
}

pub fn f64_boundaries() -> Vec<f64> {
  vec![0.0, -0.0, 1.0, -1.0, 0.5, 2.0, 0.1, 0.3, 1.0 / 3.0, f64::MIN_POSITIVE, 5e-324, f64::MAX, -f64::MAX, f64::INFINITY, f64::NEG_INFINITY, f64::NAN,
    9007199254740992.0, 9007199254740993.0f64, 9007199254740991.0, 16777217.0, 16777216.0, 255.0, 256.0, -128.0, -129.0, 65535.5, 4294967296.0, 1e19, -1e19, 3.999999, 1e-7, 123456.789]
}
pub fn f32_boundaries() -> Vec<f32> {
  vec![0.0, -0.0, 1.0, -1.0, 0.5, 2.0, 0.1, 0.3, f32::MIN_POSITIVE, f32::MAX, -f32::MAX, f32::INFINITY, f32::NEG_INFINITY, f32::NAN, 16777216.0, 16777215.0, 255.0, 256.0, -129.0, 65535.5, 1e10, 3.999]
}

pub fn sc_strategy(k: K, pool: Pool) -> BoxedStrategy<Sc> {
  match k {
    _ if k.is_int() => {
      let small = if k.is_signed() { (-12i128..=12).prop_map(move |v| k.int_sc(&BigInt::from(v))).boxed() } else { (0u128..=12).prop_map(move |v| k.int_sc(&BigInt::from(v))).boxed() };
      let bs = int_boundaries(k);
      let bound = (0..bs.len()).prop_map(move |i| bs[i].clone()).boxed();
      let uni = any::<u128>().prop_map(move |r| int_from_raw(k, r)).boxed();
      match pool {
        Pool::Small => small,
        Pool::Boundary => prop_oneof![2 => bound, 1 => small].boxed(),
        Pool::Mixed => prop_oneof![3 => small, 2 => bound, 2 => uni].boxed(),
      }
    }
    K::F64 => {
      let small = (-48i32..=48).prop_map(|v| f64b(v as f64 / 4.0)).boxed();
      let bs = f64_boundaries();
      let bound = (0..bs.len()).prop_map(move |i| f64b(bs[i])).boxed();
      let uni = any::<u64>().prop_map(|b| f64b(f64::from_bits(b))).boxed();
      let mid = (-1_000_000i64..1_000_000, 0u32..6).prop_map(|(m, e)| f64b(m as f64 / 10f64.powi(e as i32))).boxed();
      match pool {
        Pool::Small => small,
        Pool::Boundary => prop_oneof![2 => bound, 1 => small].boxed(),
        Pool::Mixed => prop_oneof![3 => small, 2 => bound, 1 => uni, 2 => mid].boxed(),
      }
    }
    K::F32 => {
      let small = (-48i32..=48).prop_map(|v| f32b(v as f32 / 4.0)).boxed();
      let bs = f32_boundaries();
      let bound = (0..bs.len()).prop_map(move |i| f32b(bs[i])).boxed();
      let uni = any::<u32>().prop_map(|b| f32b(f32::from_bits(b))).boxed();
      match pool {
        Pool::Small => small,
        Pool::Boundary => prop_oneof![2 => bound, 1 => small].boxed(),
        Pool::Mixed => prop_oneof![3 => small, 2 => bound, 1 => uni].boxed(),
      }
    }
    K::R64 => {
      let small = (-9i64..=9, 1i64..=6).prop_map(|(n, d)| { let r = num_rational::Rational64::new(n, d); Sc::R(*r.numer(), *r.denom()) }).boxed();
      let big = (-100000i64..=100000, 1i64..=1000).prop_map(|(n, d)| { let r = num_rational::Rational64::new(n, d); Sc::R(*r.numer(), *r.denom()) }).boxed();
      match pool { Pool::Small => small, _ => prop_oneof![3 => small, 1 => big].boxed() }
    }
    K::C64 => {
      (-16i32..=16, -16i32..=16).prop_map(|(a, b)| Sc::C(nz(a as f64 / 2.0).to_bits(), nz(b as f64 / 2.0).to_bits())).boxed()
    }
    _ => unreachable!(),
  }
}
fn nz(x: f64) -> f64 { if x == 0.0 { 0.0 } else { x } }

pub fn bool_strategy() -> BoxedStrategy<Sc> { any::<bool>().prop_map(Sc::Bool).boxed() }
pub fn str_strategy() -> BoxedStrategy<Sc> {
  prop_oneof![Just("a"), Just("b"), Just("ab"), Just(""), Just("B"), Just("zz"), Just("a b")].prop_map(|s| Sc::Str(s.to_string())).boxed()
}

/// element kind tag used by cases: numeric kind, bool or string
#[derive(Clone, Copy, Debug, PartialEq, Eq, Hash, PartialOrd, Ord, Serialize, Deserialize)]
pub enum EK { N(K), Bool, Str }
impl EK {
  pub fn name(&self) -> String { match self { EK::N(k) => k.name().to_string(), EK::Bool => "bool".into(), EK::Str => "string".into() } }
  pub fn strategy(&self, pool: Pool) -> BoxedStrategy<Sc> {
    match self { EK::N(k) => sc_strategy(*k, pool), EK::Bool => bool_strategy(), EK::Str => str_strategy() }
  }
}

// ------------------------------------------------------------------------------------------
// Exact construction of values in source text

fn needs_exact(v: &BigInt) -> bool { v.abs() > BigInt::from(1u64 << 53) }

/// Right-hand-side *expression* for an f64/f32/r64/c64/bool/string scalar (kind carried by text)
fn rhs_simple(s: &Sc) -> String {
  match s {
    Sc::C(re, im) => {
      let (re, im) = (f64::from_bits(*re), f64::from_bits(*im));
      if re.is_sign_negative() && re != 0.0 {
        // -(a+bi) negates both parts
        let (a, b) = (-re, -im);
        format!("-{}{}{}i", f64_plain(a).unwrap(), if b.is_sign_negative() { "-" } else { "+" }, f64_plain(b.abs()).unwrap())
      } else {
        format!("{}{}{}i", f64_plain(re.abs()).unwrap(), if im.is_sign_negative() { "-" } else { "+" }, f64_plain(im.abs()).unwrap())
      }
    }
    other => lit(other),
  }
}

/// Statements that define `name` to hold exactly `s` (kind included). Temporaries are named
/// `<name>t<i>`.
pub fn define_scalar(name: &str, s: &Sc, mutable: bool) -> Vec<String> {
  let tilde = if mutable { "~" } else { "" };
  match s {
    Sc::U(..) | Sc::I(..) => {
      let k = sc_kind(s).unwrap();
      let v = sc_int(s).unwrap();
      if !needs_exact(&v) {
        vec![format!("{}{}<{}> := {}", tilde, name, k.name(), v)]
      } else if v >= BigInt::from(i64::MIN + 1) && v <= BigInt::from(i64::MAX) {
        let mag = v.abs();
        vec![format!("{}{}<{}> := {}0d{}", tilde, name, k.name(), if v.is_negative() { "-" } else { "" }, mag)]
      } else {
        // Horner over base 2^31 chunks, all chunks carrying the sign of v, so no partial sum
        // leaves the kind's range.
        let base = BigInt::from(1u64 << 31);
        let neg = v.is_negative();
        let mut mag = v.abs();
        let mut chunks: Vec<BigInt> = vec![];
        while !mag.is_zero() { chunks.push(&mag % &base); mag = mag / &base; }
        chunks.reverse();
        let mut out = vec![];
        let kn = k.name();
        out.push(format!("{}tb<{}> := 0d{}", name, kn, base));
        let sgn = if neg { "-" } else { "" };
        let mut acc = format!("{}t0", name);
        out.push(format!("{}<{}> := {}0d{}", acc, kn, sgn, chunks[0]));
        for (i, c) in chunks.iter().enumerate().skip(1) {
          let cn = format!("{}c{}", name, i);
          out.push(format!("{}<{}> := {}0d{}", cn, kn, sgn, c));
          let last = i == chunks.len() - 1;
          let next = if last { name.to_string() } else { format!("{}t{}", name, i) };
          out.push(format!("{}{} := {} * {}tb + {}", if last { tilde } else { "" }, next, acc, name, cn));
          acc = next;
        }
        out
      }
    }
    Sc::F32(b) => {
      let x = f32::from_bits(*b);
      if x.is_nan() { vec![format!("{}{}<f32> := 0.0/0.0", tilde, name)] }
      else if x.is_infinite() { vec![format!("{}{}<f32> := {}1.0/0.0", tilde, name, if x < 0.0 { "-" } else { "" })] }
      else { vec![format!("{}{}<f32> := {}", tilde, name, f64_plain(x as f64).unwrap())] }
    }
    Sc::F64(b) => {
      let x = f64::from_bits(*b);
      if x.is_nan() { vec![format!("{}{} := 0.0/0.0", tilde, name)] }
      else if x.is_infinite() { vec![format!("{}{} := {}1.0/0.0", tilde, name, if x < 0.0 { "-" } else { "" })] }
      else { vec![format!("{}{} := {}", tilde, name, f64_plain(x).unwrap())] }
    }
    other => vec![format!("{}{} := {}", tilde, name, rhs_simple(other))],
  }
}

#[derive(Clone, Debug, PartialEq, Eq, Hash, Serialize, Deserialize)]
pub struct Opnd {
  pub scalar: bool,
  pub rows: usize,
  pub cols: usize,
  /// column-major
  pub data: Vec<Sc>,
}

impl Opnd {
  pub fn scalar(s: Sc) -> Opnd { Opnd { scalar: true, rows: 1, cols: 1, data: vec![s] } }
  pub fn kind(&self) -> String { self.data[0].kind() }
  pub fn rval(&self) -> RVal {
    if self.scalar { RVal::S(self.data[0].clone()) } else { RVal::mat(&self.kind(), self.rows, self.cols, self.data.clone()) }
  }
  /// shape class label: S, M11 (1x1 matrix), R (row vector), V (column vector), M (general)
  pub fn form(&self) -> &'static str {
    if self.scalar { "S" } else if self.rows == 1 && self.cols == 1 { "M11" } else if self.rows == 1 { "R" } else if self.cols == 1 { "V" } else { "M" }
  }
  pub fn at(&self, r: usize, c: usize) -> &Sc { &self.data[c * self.rows + r] }
  pub fn show(&self) -> String { self.rval().show() }
}

fn simple_elem(s: &Sc) -> bool {
  match s {
    Sc::U(..) | Sc::I(..) => !needs_exact(&sc_int(s).unwrap()),
    Sc::F64(b) => f64::from_bits(*b).is_finite(),
    Sc::F32(b) => f32::from_bits(*b).is_finite(),
    _ => true,
  }
}

/// Statements defining `name` as the operand (exact kind, shape and elements).
pub fn define_operand(name: &str, o: &Opnd, mutable: bool) -> Vec<String> {
  if o.scalar { return define_scalar(name, &o.data[0], mutable); }
  let tilde = if mutable { "~" } else { "" };
  let kind = o.kind();
  if o.data.iter().all(simple_elem) {
    let annotated = matches!(o.data[0], Sc::U(..) | Sc::I(..) | Sc::F32(_));
    let text = mat_lit(o.rows, o.cols, &o.data, &|s| match s {
      Sc::U(_, v) => format!("{}", v),
      Sc::I(_, v) => format!("{}", v),
      Sc::F32(b) => f64_plain(f32::from_bits(*b) as f64).unwrap(),
      other => rhs_simple(other),
    });
    if annotated { vec![format!("{}{}<[{}]> := {}", tilde, name, kind, text)] } else { vec![format!("{}{} := {}", tilde, name, text)] }
  } else {
    // element-wise construction through scalar variables
    let mut out = vec![];
    let mut names = vec![];
    for (i, s) in o.data.iter().enumerate() {
      let en = format!("{}e{}", name, i);
      out.extend(define_scalar(&en, s, false));
      names.push(Sc::Str(en));
    }
    if kind.starts_with('i') && o.rows > 1 {
      // vertical concatenation of i128 rows is not implemented at this commit: go through a row
      // vector (column-major element order) and a reshape annotation
      let flat: Vec<String> = names.iter().map(|s| match s { Sc::Str(n) => n.clone(), _ => unreachable!() }).collect();
      out.push(format!("{}flat := [{}]", name, flat.join(" ")));
      out.push(format!("{}{}<[{}]:{},{}> := {}flat", tilde, name, kind, o.rows, o.cols, name));
      return out;
    }
    let text = mat_lit(o.rows, o.cols, &names, &|s| match s { Sc::Str(n) => n.clone(), _ => unreachable!() });
    out.push(format!("{}{} := {}", tilde, name, text));
    out
  }
}

/// Run the definition statements in `sess`, verifying by read-back that `name` holds exactly the
/// operand. Err(msg) is a harness error (generator/builder bug), never a property verdict.
pub fn install_operand(sess: &mut Session, name: &str, o: &Opnd, mutable: bool) -> Result<(), String> {
  for st in define_operand(name, o, mutable) {
    match sess.run(&st) {
      Outcome::Ok(_) => {}
      other => return Err(format!("operand definition `{}` gave {}", st, other.show())),
    }
  }
  let snap = sess.snapshot();
  match snap.get(name) {
    Some(v) if *v == o.rval() => Ok(()),
    Some(v) => Err(format!("operand `{}` reads back {} instead of {}", name, v.show(), o.rval().show())),
    None => Err(format!("operand `{}` not defined", name)),
  }
}

/// Shape classes for operands
#[derive(Clone, Copy, Debug, PartialEq, Eq, Hash, PartialOrd, Ord, Serialize, Deserialize)]
pub enum Form { S, M11, R, V, M }
pub const ALL_FORMS: [Form; 5] = [Form::S, Form::M11, Form::R, Form::V, Form::M];

pub fn opnd_strategy(ek: EK, scalar: bool, rows: usize, cols: usize, pool: Pool) -> BoxedStrategy<Opnd> {
  // in a third of the operands one element is forced to 0 or 1 of its kind: the identity / absorbing elements are where value-dependent
  // shortcuts live (0 ^ 0, x * 0, x / 1), and a uniform draw from even a small pool rarely puts them in both operands at once
  (proptest::collection::vec(ek.strategy(pool), rows * cols), 0u8..6, any::<proptest::sample::Index>()).prop_map(move |(mut data, dice, ix)| {
    if dice < 2 && !data.is_empty() { let i = ix.index(data.len()); if let Some(sp) = special_of(&data[i], dice == 0) { data[i] = sp; } }
    Opnd { scalar, rows, cols, data }
  }).boxed()
}

/// 0 (zero = true) or 1 of the same kind as `s`
fn special_of(s: &Sc, zero: bool) -> Option<Sc> {
  let v = if zero { 0.0 } else { 1.0 };
  Some(match s {
    Sc::U(b, _) => Sc::U(*b, if zero { 0 } else { 1 }), Sc::I(b, _) => Sc::I(*b, if zero { 0 } else { 1 }),
    Sc::F64(_) => f64b(v), Sc::F32(_) => f32b(v as f32), Sc::R(..) => Sc::R(if zero { 0 } else { 1 }, 1), Sc::C(..) => Sc::C(f64::to_bits(v), f64::to_bits(0.0)),
    _ => return None,
  })
}

/// dims for a form: (rows, cols)
pub fn dims_for(form: Form, maxd: usize) -> BoxedStrategy<(usize, usize)> {
  match form {
    Form::S | Form::M11 => Just((1usize, 1usize)).boxed(),
    Form::R => (2..=maxd).prop_map(|n| (1, n)).boxed(),
    Form::V => (2..=maxd).prop_map(|n| (n, 1)).boxed(),
    Form::M => (2..=maxd, 2..=maxd).boxed(),
  }
}

pub fn all_ek() -> Vec<EK> {
  let mut v: Vec<EK> = ALL_KINDS.iter().map(|k| EK::N(*k)).collect();
  v.push(EK::Bool);
  v.push(EK::Str);
  v
}

pub fn pick<T: Clone + std::fmt::Debug + 'static>(v: Vec<T>) -> BoxedStrategy<T> {
  let n = v.len();
  (0..n).prop_map(move |i| v[i].clone()).boxed()
}
