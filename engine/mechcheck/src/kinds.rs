//! Numeric kinds, source-text rendering of scalar values and matrices.

use crate::rval::*;
use num_bigint::BigInt;
use num_traits::{One, ToPrimitive, Zero};
use serde::{Deserialize, Serialize};

#[derive(Clone, Copy, Debug, PartialEq, Eq, Hash, PartialOrd, Ord, Serialize, Deserialize)]
pub enum K { U8, U16, U32, U64, U128, I8, I16, I32, I64, I128, F32, F64, R64, C64 }

pub const ALL_KINDS: [K; 14] = [K::U8, K::U16, K::U32, K::U64, K::U128, K::I8, K::I16, K::I32, K::I64, K::I128, K::F32, K::F64, K::R64, K::C64];
pub const INT_KINDS: [K; 10] = [K::U8, K::U16, K::U32, K::U64, K::U128, K::I8, K::I16, K::I32, K::I64, K::I128];
pub const REAL_KINDS: [K; 13] = [K::U8, K::U16, K::U32, K::U64, K::U128, K::I8, K::I16, K::I32, K::I64, K::I128, K::F32, K::F64, K::R64];

impl K {
  pub fn name(&self) -> &'static str {
    match self {
      K::U8 => "u8", K::U16 => "u16", K::U32 => "u32", K::U64 => "u64", K::U128 => "u128",
      K::I8 => "i8", K::I16 => "i16", K::I32 => "i32", K::I64 => "i64", K::I128 => "i128",
      K::F32 => "f32", K::F64 => "f64", K::R64 => "r64", K::C64 => "c64",
    }
  }
  pub fn from_name(s: &str) -> Option<K> { ALL_KINDS.iter().copied().find(|k| k.name() == s) }
  pub fn is_int(&self) -> bool { !matches!(self, K::F32 | K::F64 | K::R64 | K::C64) }
  pub fn is_float(&self) -> bool { matches!(self, K::F32 | K::F64) }
  pub fn is_signed(&self) -> bool { matches!(self, K::I8 | K::I16 | K::I32 | K::I64 | K::I128) }
  pub fn is_unsigned(&self) -> bool { matches!(self, K::U8 | K::U16 | K::U32 | K::U64 | K::U128) }
  pub fn bits(&self) -> u32 {
    match self { K::U8 | K::I8 => 8, K::U16 | K::I16 => 16, K::U32 | K::I32 | K::F32 => 32, K::U64 | K::I64 | K::F64 | K::R64 | K::C64 => 64, K::U128 | K::I128 => 128 }
  }
  pub fn min_int(&self) -> BigInt {
    if self.is_signed() { -(BigInt::one() << (self.bits() - 1)) } else { BigInt::zero() }
  }
  pub fn max_int(&self) -> BigInt {
    if self.is_signed() { (BigInt::one() << (self.bits() - 1)) - 1 } else { (BigInt::one() << self.bits()) - 1 }
  }
  pub fn fits(&self, v: &BigInt) -> bool { self.is_int() && *v >= self.min_int() && *v <= self.max_int() }
  /// scalar of this integer kind (value must fit)
  pub fn int_sc(&self, v: &BigInt) -> Sc {
    if self.is_signed() { Sc::I(self.bits() as u8, v.to_i128().expect("fits")) } else { Sc::U(self.bits() as u8, v.to_u128().expect("fits")) }
  }
}

pub fn sc_int(s: &Sc) -> Option<BigInt> {
  match s { Sc::U(_, v) => Some(BigInt::from(*v)), Sc::I(_, v) => Some(BigInt::from(*v)), _ => None }
}

pub fn sc_kind(s: &Sc) -> Option<K> {
  match s {
    Sc::U(b, _) => K::from_name(&format!("u{}", b)),
    Sc::I(b, _) => K::from_name(&format!("i{}", b)),
    Sc::F32(_) => Some(K::F32), Sc::F64(_) => Some(K::F64), Sc::R(..) => Some(K::R64), Sc::C(..) => Some(K::C64),
    _ => None,
  }
}

/// Plain decimal rendering of an f64 that Mech's float literal grammar accepts (digits '.' digits),
/// exact for the values our pools use. None for non-finite values.
pub fn f64_plain(x: f64) -> Option<String> {
  if !x.is_finite() { return None; }
  let s = format!("{:?}", x.abs()); // shortest round-trip; may contain 'e'
  let body = if s.contains('e') || s.contains('E') {
    // expand exponent form exactly through a big decimal expansion
    expand_exp(&s)?
  } else { s };
  let body = if body.contains('.') { body } else { format!("{}.0", body) };
  Some(if x.is_sign_negative() { format!("-{}", body) } else { body })
}

fn expand_exp(s: &str) -> Option<String> {
  let (m, e) = s.split_once(|c| c == 'e' || c == 'E')?;
  let e: i32 = e.parse().ok()?;
  let (ip, fp) = match m.split_once('.') { Some((a, b)) => (a.to_string(), b.to_string()), None => (m.to_string(), String::new()) };
  let digits = format!("{}{}", ip, fp);
  let point = ip.len() as i32 + e;
  if point <= 0 {
    Some(format!("0.{}{}", "0".repeat((-point) as usize), digits))
  } else if point as usize >= digits.len() {
    Some(format!("{}{}.0", digits, "0".repeat(point as usize - digits.len())))
  } else {
    Some(format!("{}.{}", &digits[..point as usize], &digits[point as usize..]))
  }
}

/// Source text for a scalar as a *typed literal expression*; wraps negatives so that they can be
/// used as operands. Forms verified against the parser: `7<i8>`, `-7<i8>`, `1.5<f32>`, `1/2`, `1+2i`.
pub fn lit(s: &Sc) -> String {
  match s {
    Sc::U(b, v) => format!("{}<u{}>", v, b),
    Sc::I(b, v) => format!("{}<i{}>", v, b),
    Sc::F64(bits) => {
      let x = f64::from_bits(*bits);
      if x.is_nan() { "(0.0/0.0)".into() }
      else if x.is_infinite() { if x > 0.0 { "(1.0/0.0)".into() } else { "(-1.0/0.0)".into() } }
      else { f64_plain(x).unwrap() }
    }
    Sc::F32(bits) => {
      let x = f32::from_bits(*bits);
      if x.is_nan() { "(0.0<f32>/0.0<f32>)".into() }
      else if x.is_infinite() { if x > 0.0 { "(1.0<f32>/0.0<f32>)".into() } else { "(-1.0<f32>/0.0<f32>)".into() } }
      else { format!("{}<f32>", f64_plain(x as f64).unwrap()) }
    }
    Sc::R(n, d) => format!("{}/{}", n, d),
    Sc::C(re, im) => {
      // `-a+bi` parses as -(a+bi): a negative real part is written through the negation of both parts
      let (re, im) = (f64::from_bits(*re), f64::from_bits(*im));
      if re.is_sign_negative() && re != 0.0 {
        let (a, b) = (-re, -im);
        format!("-{}{}{}i", f64_plain(a).unwrap_or("0.0".into()), if b.is_sign_negative() && b != 0.0 { "-" } else { "+" }, f64_plain(b.abs()).unwrap_or("0.0".into()))
      } else {
        format!("{}{}{}i", f64_plain(re.abs()).unwrap_or("0.0".into()), if im.is_sign_negative() && im != 0.0 { "-" } else { "+" }, f64_plain(im.abs()).unwrap_or("0.0".into()))
      }
    }
    Sc::Bool(b) => format!("{}", b),
    Sc::Str(s) => format!("\"{}\"", s),
    Sc::Atom(_) => ":atom".into(),
    Sc::Empty => "_".into(),
  }
}

/// Bare element text for use inside an annotated matrix definition `m<[K]> := [...]`.
/// (Elements are written as f64-ish plain numbers and converted by the annotation.)
pub fn bare(s: &Sc) -> String {
  match s {
    Sc::U(_, v) => format!("{}", v),
    Sc::I(_, v) => format!("{}", v),
    Sc::F32(bits) => f64_plain(f32::from_bits(*bits) as f64).unwrap_or("0.0".into()),
    other => lit(other),
  }
}

/// `[a b; c d]` from column-major data
pub fn mat_lit(rows: usize, cols: usize, data: &[Sc], f: &dyn Fn(&Sc) -> String) -> String {
  let mut s = String::from("[");
  for r in 0..rows {
    if r > 0 { s.push_str("; "); }
    for c in 0..cols {
      if c > 0 { s.push(' '); }
      s.push_str(&f(&data[c * rows + r]));
    }
  }
  s.push(']');
  s
}

/// matrix literal with every element a typed literal (no annotation needed)
pub fn mat_typed(rows: usize, cols: usize, data: &[Sc]) -> String { mat_lit(rows, cols, data, &lit) }
