#![allow(dead_code, unused_imports, unused_variables, unused_mut)]
mod engine;
mod gen;
mod kinds;
mod mech;
mod rval;
mod progs;
mod xgen;
mod props;

use engine::*;

#[global_allocator]
static GLOBAL: mech::ProbeAlloc = mech::ProbeAlloc;

fn arg(args: &[String], name: &str) -> Option<String> {
  args.iter().position(|a| a == name).and_then(|i| args.get(i + 1).cloned())
}

macro_rules! dispatch {
  ($id:expr, $f:ident, $($arg:expr),*) => {
    match $id {
      "C01" => $f::<props::c01::C01>($($arg),*),
      "C02" => $f::<props::c02::C02>($($arg),*),
      "C03" => $f::<props::c03::C03>($($arg),*),
      "C04" => $f::<props::c04::C04>($($arg),*),
      "C05" => $f::<props::c05::C05>($($arg),*),
      "C06" => $f::<props::c06::C06>($($arg),*),
      "C07" => $f::<props::c07::C07>($($arg),*),
      "C08" => $f::<props::c08::C08>($($arg),*),
      "C09" => $f::<props::c09::C09>($($arg),*),
      "C10" => $f::<props::c10::C10>($($arg),*),
      "C11" => $f::<props::c11::C11>($($arg),*),
      "C12" => $f::<props::c12::C12>($($arg),*),
      "C13" => $f::<props::c13::C13>($($arg),*),
      "C14" => $f::<props::c14::C14>($($arg),*),
      "C15" => $f::<props::c15::C15>($($arg),*),
      "C16" => $f::<props::c16::C16>($($arg),*),
      "C17" => $f::<props::c17::C17>($($arg),*),
      "C18" => $f::<props::c18::C18>($($arg),*),
      "C19" => $f::<props::c19::C19>($($arg),*),
      other => { eprintln!("unknown property {}", other); std::process::exit(3) }
    }
  };
}

fn main() {
  let args: Vec<String> = std::env::args().collect();
  if args.len() < 2 { eprintln!("usage: mechcheck run|worker|replay|probe ..."); std::process::exit(3); }
  match args[1].as_str() {
    "probe" => probe(),
    "fmtone" => fmtone(),
    "c09time" => c09time(),
    "emitcorpus" => emitcorpus(),
    "parsetime" => { use std::io::Read; mech::install_quiet_panic_hook(); let mut s = String::new(); std::io::stdin().read_to_string(&mut s).unwrap(); let h = std::thread::Builder::new().stack_size(1024 << 20).spawn(move || { let t0 = std::time::Instant::now(); let r = std::panic::catch_unwind(std::panic::AssertUnwindSafe(|| mech_syntax::parser::parse(&s))); println!("{} ms {}", t0.elapsed().as_millis(), match r { Ok(Ok(_)) => "ok", Ok(Err(_)) => "err", Err(_) => "panic" }); }).unwrap(); h.join().unwrap(); }
    "fmtprobe" => fmtprobe(),
    "gramprobe" => gramprobe(),
    "c10probe" => c10probe(),
    "zooprobe" => { mech::install_quiet_panic_hook(); let h = std::thread::Builder::new().stack_size(256 << 20).spawn(|| { for i in 0..props::c19::ZOO.len() as u16 { for a in [0u32, 1] { let c = props::c19::Case { choices: vec![], mutate: false, n: 1, zoo: Some((i, a)) }; let p = props::c19::program(&c); let out = mech::Session::new().run(&p.source()); if !out.is_ok() { println!("#{} v{}: {}  <= {:?}", i, a, out.show(), p.source()); } } } }).unwrap(); h.join().unwrap(); }
    "docprobe" => docprobe(),
    "compileprobe" => compileprobe(),
    "fsmprobe" => fsmprobe(),
    "run" => {
      let id = args[2].clone();
      let tier = match arg(&args, "--tier").or_else(|| std::env::var("VERIF_TIER").ok()).as_deref() { Some("thorough") => Tier::Thorough, _ => Tier::Quick };
      let seed: u64 = arg(&args, "--seed").or_else(|| std::env::var("VERIF_SEED").ok()).and_then(|s| s.parse::<i64>().ok()).map(|s| s as u64).unwrap_or(0);
      let workers: u32 = arg(&args, "--workers").and_then(|s| s.parse().ok()).unwrap_or(16);
      let o = RunOpts { tier, seed, workers };
      let code = dispatch!(id.as_str(), supervisor_main, o);
      std::process::exit(code);
    }
    "worker" => {
      let id = args[2].clone();
      let tier = match arg(&args, "--tier").as_deref() { Some("thorough") => Tier::Thorough, _ => Tier::Quick };
      let g = |n: &str| arg(&args, n).and_then(|s| s.parse::<u64>().ok()).unwrap_or(0);
      let mut replays = vec![];
      for (i, a) in args.iter().enumerate() { if a == "--replay-file" { if let Some(p) = args.get(i + 1) { replays.push(p.clone()); } } }
      let a = WorkerArgs { tier, seed: g("--seed"), index: g("--index") as u32, of: g("--of").max(1) as u32, skip_fixed: g("--skip-fixed") as u32, skip_rand: g("--skip-rand") as u32, replays, skip_replays: g("--skip-replays") as u32, skip_pins: g("--skip-pins") as u32 };
      dispatch!(id.as_str(), worker_main, a);
    }
    "replay" => {
      let path = args[2].clone();
      let txt = std::fs::read_to_string(&path).expect("read");
      let j: serde_json::Value = serde_json::from_str(&txt).expect("json");
      let id = j["property"].as_str().expect("property").to_string();
      let code = dispatch!(id.as_str(), replay_main, &path);
      std::process::exit(code);
    }
    _ => { eprintln!("unknown command"); std::process::exit(3); }
  }
}

/// Reads source snippets separated by lines containing only `----` from stdin, interprets each in
/// a fresh interpreter (statement lines sequentially) and prints the outcome. Exploration aid.
fn probe() {
  use std::io::Read;
  mech::install_quiet_panic_hook();
  let mut s = String::new();
  std::io::stdin().read_to_string(&mut s).unwrap();
  let h = std::thread::Builder::new().stack_size(1 << 30).spawn(move || {
    for snip in s.split("\n----\n") {
      let snip = snip.trim_matches('\n');
      if snip.is_empty() { continue; }
      let mut sess = mech::Session::new();
      let t = std::time::Instant::now();
      let o = sess.run(snip);
      println!("SRC {:?}\n  => {}   [{}] plan={:?} {:?}", snip, o.show(), match sess.intrp.out.clone() { v => rval::form_of(&v) }, sess.plan_names().iter().rev().take(3).collect::<Vec<_>>(), t.elapsed());
      let snap = sess.snapshot();
      if !snap.is_empty() { println!("  syms: {}", snap.iter().map(|(k, v)| format!("{}={}", k, v.show())).collect::<Vec<_>>().join("; ")); }
    }
  }).unwrap();
  h.join().unwrap();
}

/// like probe, but with tracing on: prints the fsm trace events
fn fsmprobe() {
  use std::io::Read;
  mech::install_quiet_panic_hook();
  let mut s = String::new();
  std::io::stdin().read_to_string(&mut s).unwrap();
  let h = std::thread::Builder::new().stack_size(1 << 30).spawn(move || {
    for snip in s.split("\n----\n") {
      let snip = snip.trim_matches('\n');
      if snip.is_empty() { continue; }
      let mut sess = mech::Session::new();
      sess.intrp.set_trace_enabled(true);
      sess.intrp.set_trace_to_stdout(false);
      sess.intrp.max_steps = 50;
      let t = std::time::Instant::now();
      let o = sess.run(snip);
      println!("SRC {:?}\n  => {} {:?}", snip, o.show(), t.elapsed());
      for e in sess.intrp.trace_events() { if e.channel.as_deref() == Some("fsm") { println!("    [{}] {}", e.label.clone().unwrap_or_default(), e.message.chars().take(150).collect::<String>()); } }
    }
  }).unwrap();
  h.join().unwrap();
}

/// interpret + compile + load + run in a fresh interpreter, for the one snippet on stdin
fn compileprobe() {
  use std::io::Read;
  use mech_core::*;
  mech::install_quiet_panic_hook();
  let mut s = String::new();
  std::io::stdin().read_to_string(&mut s).unwrap();
  let h = std::thread::Builder::new().stack_size(32 << 20).spawn(move || {
    match props::c06::compile_program(s.trim()) {
      props::c06::Stage::Discard(w) => println!("interpret: {}", w),
      props::c06::Stage::CompileErr(k) => println!("compile error: {}", k),
      props::c06::Stage::CompilePanic(m) => println!("compile panic: {}", m),
      props::c06::Stage::Bytes(b, r, names) => {
        println!("interpret = {} ; {} bytes ; plan {:?}", r.show(), b.len(), names);
        match ParsedProgram::from_bytes(&b) {
          Err(e) => println!("load error {}", e.kind_name()),
          Ok(p) => { match p.decode_const_entries() { Ok(cs) => for c in &cs { println!("  const {:?} = {}", c.kind(), rval::from_value(c).show()); }, Err(e) => println!("  decode consts error {}", e.kind_name()) }
            let mut f = mech_interpreter::Interpreter::new(1); match std::panic::catch_unwind(std::panic::AssertUnwindSafe(|| f.run_program(&p))) { Err(e) => println!("run panic {}", mech::panic_msg(e)), Ok(Err(e)) => println!("run error {}", e.kind_name()), Ok(Ok(v)) => println!("run = {}", rval::from_value(&v).show()) } }
        }
      }
    }
  }).unwrap();
  h.join().unwrap();
}

fn docprobe() {
  use std::io::Read;
  mech::install_quiet_panic_hook();
  let mut s = String::new();
  std::io::stdin().read_to_string(&mut s).unwrap();
  let h = std::thread::Builder::new().stack_size(256 << 20).spawn(move || {
    for snip in s.split("\n----\n") {
      let snip = snip.trim_matches('\n');
      if snip.is_empty() { continue; }
      match mech::run_document(snip) {
        Err(e) => println!("DOC {:?}\n  => {}", snip.chars().take(80).collect::<String>(), e),
        Ok((kinds, out, main, named)) => {
          println!("DOC {:?}\n  kinds: {:?}\n  => {}", snip.chars().take(80).collect::<String>(), kinds, out.show());
          println!("  main: {}", main.iter().map(|(k, v)| format!("{}={}", k, v.show())).collect::<Vec<_>>().join("; "));
          for (id, sn) in named { println!("  fence {}: {}", id, sn.iter().map(|(k, v)| format!("{}={}", k, v.show())).collect::<Vec<_>>().join("; ")); }
        }
      }
    }
  }).unwrap();
  h.join().unwrap();
}

/// formatter round trip over every corpus entry and generated construct; prints a histogram of failure signatures
fn fmtprobe() {
  use props::c08::*;
  mech::install_quiet_panic_hook();
  let h = std::thread::Builder::new().stack_size(512 << 20).spawn(move || {
    let mut hist: std::collections::BTreeMap<String, (usize, String)> = Default::default();
    let mut n = 0; let mut ok = 0; let mut disc = 0;
    let mut cases: Vec<Case> = vec![];
    for i in 0..700u32 { cases.push(Case::Snippet(i)); }
    for i in 0..200u32 { cases.push(Case::File(i)); }
    for k in 0..NCONSTRUCTS { for p in [0u32, 1, 13, 77, 1234] { cases.push(Case::Gen(vec![(k, p)])); } }
    for c in cases {
      let Some(src) = case_text(&c) else { continue };
      n += 1;
      match round_trip(&src) {
        Fmt::Ok(_) => ok += 1,
        Fmt::Discard(_) => disc += 1,
        Fmt::Fail(k, _) => { let name = match &c { Case::Gen(g) => format!("construct:{}", construct(g[0].0, g[0].1).0), Case::Snippet(i) => format!("snippet {}", i), Case::File(i) => format!("file {}", i), _ => String::new() }; let e = hist.entry(k).or_insert((0, name)); e.0 += 1; }
      }
    }
    println!("{} cases: {} ok, {} discarded", n, ok, disc);
    for (k, (cnt, ex)) in hist { println!("{:5}  {}   e.g. {}", cnt, k, ex); }
  }).unwrap();
  h.join().unwrap();
}

/// dev probe: documents of generated C10 cases that fail to parse
fn c10probe() {
  use proptest::strategy::{Strategy, ValueTree};
  use proptest::test_runner::{Config, TestRunner, TestRng, RngAlgorithm};
  mech::install_quiet_panic_hook();
  let args: Vec<String> = std::env::args().collect();
  let n: usize = args.get(2).and_then(|s| s.parse().ok()).unwrap_or(300);
  let h = std::thread::Builder::new().stack_size(512 << 20).spawn(move || {
    let known = engine::Known::load("C10");
    let strat = props::c10::C10::strategy(engine::Tier::Quick, &known);
    let mut runner = TestRunner::new_with_rng(Config::default(), TestRng::from_seed(RngAlgorithm::ChaCha, &[7u8; 32]));
    let (mut bad, mut shown) = (0, 0);
    for _ in 0..n {
      let case = strat.new_tree(&mut runner).unwrap().current();
      let doc = props::c10::C10::describe(&case);
      if mech_syntax::parser::parse(&doc).is_err() { bad += 1; if shown < 6 { shown += 1; println!("=== does not parse ===\n{}\n", doc); } }
    }
    println!("{} of {} documents do not parse", bad, n);
    println!("screen: {:?}", props::c10::PROSE.iter().map(|p| props::c10::prose_screen(p)).collect::<Vec<bool>>());
  }).unwrap();
  h.join().unwrap();
}

/// dev probe: N programs from the recursive grammar generator through the C08 round trip; parse rate, feature counts, failure histogram
fn gramprobe() {
  use props::c08::*;
  mech::install_quiet_panic_hook();
  let args: Vec<String> = std::env::args().collect();
  let n: usize = args.get(2).and_then(|s| s.parse().ok()).unwrap_or(2000);
  let show: usize = args.get(3).and_then(|s| s.parse().ok()).unwrap_or(0);
  let h = std::thread::Builder::new().stack_size(512 << 20).spawn(move || {
    let mut hist: std::collections::BTreeMap<String, (usize, String)> = Default::default();
    let mut feats: std::collections::BTreeMap<&'static str, (usize, usize)> = Default::default();
    let (mut ok, mut disc) = (0, 0);
    let mut x: u64 = 0x9E3779B97F4A7C15;
    let t0 = std::time::Instant::now();
    for i in 0..n {
      let len = 4 + (i % 60);
      let ch: Vec<u32> = (0..len).map(|_| { x ^= x << 13; x ^= x >> 7; x ^= x << 17; (x % 1_000_000) as u32 }).collect();
      let (src, fs) = if std::env::var("DOC").is_ok() { xgen::document(&ch) } else { xgen::program(&ch) };
      if i < show { println!("--- #{}\n{}", i, src); }
      let r = round_trip(&src);
      let parsed = !matches!(r, Fmt::Discard(_));
      for f in &fs { let e = feats.entry(*f).or_insert((0, 0)); e.0 += 1; if parsed { e.1 += 1; } }
      match r {
        Fmt::Ok(_) => ok += 1,
        Fmt::Discard(w) => { disc += 1; let e = hist.entry(format!("discard: {}", w)).or_insert((0, src.clone())); e.0 += 1; }
        Fmt::Fail(k, m) => { let e = hist.entry(k).or_insert((0, format!("{}\n   >>> {}", src, m.chars().take(300).collect::<String>()))); e.0 += 1; }
      }
    }
    println!("{} programs in {:.1}s: {} ok, {} discarded", n, t0.elapsed().as_secs_f64(), ok, disc);
    for (f, (a, b)) in feats { println!("  feat {:24} generated {:5} parsed {:5}", f, a, b); }
    for (k, (cnt, ex)) in hist { println!("{:5}  {}\n   e.g. {}", cnt, k, ex.replace('\n', "\n        ")); }
  }).unwrap();
  h.join().unwrap();
}

/// formats stdin snippets (separated by ----) and prints the formatted text and verdict
fn fmtone() {
  use std::io::Read;
  mech::install_quiet_panic_hook();
  let mut s = String::new();
  std::io::stdin().read_to_string(&mut s).unwrap();
  let h = std::thread::Builder::new().stack_size(512 << 20).spawn(move || {
    for snip in s.split("\n----\n") {
      let snip = snip.trim_matches('\n');
      if snip.is_empty() { continue; }
      match mech_syntax::parser::parse(snip) {
        Err(_) => println!("SRC {:?}\n  does not parse", snip),
        Ok(t) => { let f = mech_syntax::formatter::Formatter::new().format(&t); println!("SRC {:?}\n  FMT {:?}\n  {}", snip, f, match props::c08::round_trip(snip) { props::c08::Fmt::Ok(_) => "ok".to_string(), props::c08::Fmt::Discard(w) => w, props::c08::Fmt::Fail(k, _) => format!("FAIL {}", k) }); }
      }
    }
  }).unwrap();
  h.join().unwrap();
}

/// dev probe: time the parser on generated C09 cases (prints the case before parsing so a hang is visible)
fn c09time() {
  use proptest::strategy::{Strategy, ValueTree};
  use proptest::test_runner::{Config, RngAlgorithm, TestRng, TestRunner};
  use engine::Prop;
  mech::install_quiet_panic_hook();
  let args: Vec<String> = std::env::args().collect();
  let n: usize = args.get(2).and_then(|s| s.parse().ok()).unwrap_or(2000);
  let seed: u64 = args.get(3).and_then(|s| s.parse().ok()).unwrap_or(1);
  let limit_ms: u128 = args.get(4).and_then(|s| s.parse().ok()).unwrap_or(500);
  let h = std::thread::Builder::new().stack_size(1024 << 20).spawn(move || {
    let known = engine::Known::load("C09");
    let strat = props::c09::C09::strategy(engine::Tier::Quick, &known);
    let mut seed_bytes = [0u8; 32]; seed_bytes[..8].copy_from_slice(&seed.to_le_bytes());
    let mut runner = TestRunner::new_with_rng(Config::default(), TestRng::from_seed(RngAlgorithm::ChaCha, &seed_bytes));
    for i in 0..n {
      let case = strat.new_tree(&mut runner).unwrap().current();
      let text = props::c09::case_text(&case).unwrap_or_default();
      let t0 = std::time::Instant::now();
      eprintln!("#{} {:?}", i, text.chars().take(300).collect::<String>());
      let _ = std::panic::catch_unwind(std::panic::AssertUnwindSafe(|| mech_syntax::parser::parse(&text)));
      let ms = t0.elapsed().as_millis();
      if ms > limit_ms { println!("SLOW {} ms  #{} {}", ms, i, serde_json::to_string(&case).unwrap_or_default().chars().take(300).collect::<String>()); println!("   text {:?}", text.chars().take(400).collect::<String>()); }
    }
  }).unwrap();
  h.join().unwrap();
}

/// writes the seed corpora of the libFuzzer targets: <dir>/text/* (suite snippets, small .mec files, generated constructs) and
/// <dir>/images/* (files the real compiler emits for generated programs; sets are left out: the set-constant decode hang is a listed finding)
fn emitcorpus() {
  mech::install_quiet_panic_hook();
  let args: Vec<String> = std::env::args().collect();
  let dir = args.get(2).cloned().unwrap_or_else(|| format!("{}/target/fuzz-corpus", engine::verif_dir()));
  let _ = std::fs::create_dir_all(format!("{}/text", dir));
  let _ = std::fs::create_dir_all(format!("{}/images", dir));
  let h = std::thread::Builder::new().stack_size(1024 << 20).spawn(move || {
    let mut n = 0;
    for (i, (_, t)) in props::c08::corpus("snippets").iter().enumerate() { if t.len() <= 2048 { let _ = std::fs::write(format!("{}/text/s{:04}", dir, i), t); n += 1; } }
    for (i, (_, t)) in props::c08::corpus("files").iter().enumerate() { if t.len() <= 4096 { let _ = std::fs::write(format!("{}/text/f{:04}", dir, i), t); n += 1; } }
    for k in 0..props::c08::NCONSTRUCTS { for p in [0u32, 1, 13] { let (_, t) = props::c08::construct(k, p); let _ = std::fs::write(format!("{}/text/g{:02}_{}", dir, k, p), t); n += 1; } }
    let mut m = 0;
    let mut x: u64 = 0x9E3779B97F4A7C15;
    for i in 0..400u32 {
      let mut ch = vec![];
      for _ in 0..40 { x ^= x << 13; x ^= x >> 7; x ^= x << 17; ch.push((x % 100_000) as u32); }
      if let Some(b) = props::c07::base_bytes(&ch, i % 2 == 0) {
        let src_has_set = String::from_utf8_lossy(&b).contains("set/");
        if b.len() <= 8192 && !src_has_set { let _ = std::fs::write(format!("{}/images/p{:04}.mecb", dir, i), &b); m += 1; }
      }
    }
    println!("text seeds: {}  image seeds: {}", n, m);
  }).unwrap();
  h.join().unwrap();
}
