//! Thin observation layer over the real parser / interpreter.

use crate::rval::*;
use mech_core::*;
use mech_interpreter::*;
use mech_syntax::parser;
use std::panic::{catch_unwind, AssertUnwindSafe};

#[derive(Clone, Debug)]
pub enum Outcome {
  Ok(RVal),
  /// interpreter returned an error; the string is the error kind name
  Err(String),
  /// parser rejected the text
  ParseErr(String),
  /// text parsed, but (partly) as prose — a generator bug unless the property wants prose
  NotCode,
  /// a panic escaped interpret()/parse() (they are supposed to catch)
  Panic(String),
}

impl Outcome {
  pub fn is_ok(&self) -> bool { matches!(self, Outcome::Ok(_)) }
  /// interpreter-level or parser-level rejection
  pub fn is_rejected(&self) -> bool { matches!(self, Outcome::Err(_) | Outcome::ParseErr(_)) }
  pub fn class(&self) -> String {
    match self {
      Outcome::Ok(_) => "ok".into(),
      Outcome::Err(k) => format!("err:{}", k),
      Outcome::ParseErr(_) => "parse-err".into(),
      Outcome::NotCode => "not-code".into(),
      Outcome::Panic(_) => "panic".into(),
    }
  }
  pub fn show(&self) -> String {
    match self {
      Outcome::Ok(v) => format!("Ok({})", v.show()),
      Outcome::Err(k) => format!("Err({})", k),
      Outcome::ParseErr(m) => format!("ParseErr({})", m),
      Outcome::NotCode => "NotCode".into(),
      Outcome::Panic(m) => format!("Panic({})", m),
    }
  }
}

pub fn panic_msg(e: Box<dyn std::any::Any + Send>) -> String {
  if let Some(s) = e.downcast_ref::<&'static str>() { s.to_string() }
  else if let Some(s) = e.downcast_ref::<String>() { s.clone() }
  else { "non-string panic".to_string() }
}

/// Number of code items if the tree consists of MechCode elements only (no prose, no error
/// placeholders); None otherwise.
pub fn code_items(tree: &Program) -> Option<usize> {
  if tree.title.is_some() { return None; }
  let mut n = 0;
  for s in &tree.body.sections {
    if s.subtitle.is_some() { return None; }
    for e in &s.elements {
      match e {
        SectionElement::MechCode(items) => {
          for (c, _) in items {
            if let MechCode::Error(..) = c { return None; }
            n += 1;
          }
        }
        _ => return None,
      }
    }
  }
  Some(n)
}

pub enum Parsed { Code(Program, usize), Prose(Program), Err(String), Panic(String) }

pub fn parse_src(src: &str) -> Parsed {
  match catch_unwind(AssertUnwindSafe(|| parser::parse(src))) {
    Err(e) => Parsed::Panic(panic_msg(e)),
    Ok(Err(e)) => Parsed::Err(e.kind_name()),
    Ok(Ok(tree)) => match code_items(&tree) {
      Some(n) => Parsed::Code(tree, n),
      None => Parsed::Prose(tree),
    },
  }
}

pub struct Session {
  pub intrp: Interpreter,
}

impl Session {
  pub fn new() -> Session { Session { intrp: Interpreter::new(0) } }

  /// Interpret `src`, which must parse as code only.
  pub fn run(&mut self, src: &str) -> Outcome {
    match parse_src(src) {
      Parsed::Panic(m) => Outcome::Panic(format!("parse: {}", m)),
      Parsed::Err(k) => Outcome::ParseErr(k),
      Parsed::Prose(_) => Outcome::NotCode,
      Parsed::Code(tree, _) => self.run_tree(&tree),
    }
  }

  pub fn run_tree(&mut self, tree: &Program) -> Outcome {
    match catch_unwind(AssertUnwindSafe(|| self.intrp.interpret(tree))) {
      Err(e) => Outcome::Panic(panic_msg(e)),
      Ok(Err(e)) => Outcome::Err(e.kind_name()),
      Ok(Ok(v)) => Outcome::Ok(from_value(&v)),
    }
  }

  /// Raw value result (for storage-form labels).
  pub fn run_value(&mut self, src: &str) -> Result<Value, Outcome> {
    match parse_src(src) {
      Parsed::Panic(m) => Err(Outcome::Panic(format!("parse: {}", m))),
      Parsed::Err(k) => Err(Outcome::ParseErr(k)),
      Parsed::Prose(_) => Err(Outcome::NotCode),
      Parsed::Code(tree, _) => match catch_unwind(AssertUnwindSafe(|| self.intrp.interpret(&tree))) {
        Err(e) => Err(Outcome::Panic(panic_msg(e))),
        Ok(Err(e)) => Err(Outcome::Err(e.kind_name())),
        Ok(Ok(v)) => Ok(v),
      },
    }
  }

  /// Deep copy of every user symbol (everything but `ans`).
  pub fn snapshot(&self) -> Snapshot { snapshot_of(&self.intrp) }

  /// Struct names of the plan steps (first line of to_string()).
  pub fn plan_names(&self) -> Vec<String> {
    let plan = self.intrp.plan();
    let p = plan.borrow();
    p.iter().map(|f| step_name(&f.to_string())).collect()
  }
  pub fn last_step_name(&self) -> Option<String> {
    let plan = self.intrp.plan();
    let p = plan.borrow();
    p.last().map(|f| step_name(&f.to_string()))
  }
}

pub fn step_name(s: &str) -> String {
  let first = s.lines().next().unwrap_or("");
  let t: String = first.chars().take_while(|c| c.is_alphanumeric() || *c == '_').collect();
  if t.is_empty() { first.chars().take(24).collect() } else { t }
}

pub fn snapshot_of(intrp: &Interpreter) -> Snapshot {
  let syms = intrp.symbols();
  let st = syms.borrow();
  let dict = st.dictionary.borrow();
  let mut out = Snapshot::new();
  for (id, cell) in st.symbols.iter() {
    let name = dict.get(id).cloned().unwrap_or_else(|| format!("#{}", id));
    if name == "ans" { continue; }
    let v = cell.borrow();
    out.insert(name, from_value(&v));
  }
  out
}

/// Names registered as mutable.
pub fn mutable_names(intrp: &Interpreter) -> Vec<String> {
  let syms = intrp.symbols();
  let st = syms.borrow();
  let dict = st.dictionary.borrow();
  let mut v: Vec<String> = st.mutable_variables.keys().map(|id| dict.get(id).cloned().unwrap_or_else(|| format!("#{}", id))).collect();
  v.sort();
  v
}

/// Evaluate in a fresh interpreter.
pub fn eval(src: &str) -> Outcome { Session::new().run(src) }

pub fn install_quiet_panic_hook() {
  std::panic::set_hook(Box::new(|_| {}));
}

/// kind name of every top-level section element (title and subtitles included), in document order
pub fn element_kinds(tree: &Program) -> Vec<String> {
  let mut out = vec![];
  if tree.title.is_some() { out.push("Title".to_string()); }
  for s in &tree.body.sections {
    if s.subtitle.is_some() { out.push("SectionSubtitle".to_string()); }
    for e in &s.elements { out.push(element_kind(e)); }
  }
  out
}
pub fn element_kind(e: &SectionElement) -> String {
  match e {
    SectionElement::MechCode(items) => format!("MechCode({})", items.len()),
    SectionElement::FencedMechCode(b) => format!("FencedMechCode(ns={},disabled={})", if b.config.namespace == 0 { "0".to_string() } else { "named".to_string() }, b.config.disabled),
    SectionElement::Paragraph(_) => "Paragraph".into(), SectionElement::List(_) => "List".into(), SectionElement::QuoteBlock(_) => "QuoteBlock".into(),
    SectionElement::Table(_) => "Table".into(), SectionElement::CodeBlock(_) => "CodeBlock".into(), SectionElement::ThematicBreak => "ThematicBreak".into(),
    SectionElement::Subtitle(_) => "Subtitle".into(), SectionElement::Comment(_) => "Comment".into(), SectionElement::Error(..) => "Error".into(),
    other => format!("{:?}", other).split(|c: char| !c.is_alphanumeric()).next().unwrap_or("Other").to_string(),
  }
}

/// parse and interpret a whole document (prose allowed); returns element kinds, outcome, main snapshot and the snapshots of named fences
pub fn run_document(src: &str) -> Result<(Vec<String>, Outcome, Snapshot, Vec<(u64, Snapshot)>), String> {
  let tree = match catch_unwind(AssertUnwindSafe(|| parser::parse(src))) { Err(e) => return Err(format!("parse panic: {}", panic_msg(e))), Ok(Err(e)) => return Err(format!("parse error: {}", e.kind_name())), Ok(Ok(t)) => t };
  let kinds = element_kinds(&tree);
  let mut sess = Session::new();
  let out = sess.run_tree(&tree);
  let main = sess.snapshot();
  let subs = sess.intrp.sub_interpreters.borrow();
  let mut named: Vec<(u64, Snapshot)> = subs.iter().map(|(id, i)| (*id, snapshot_of(i))).collect();
  named.sort_by_key(|x| x.0);
  Ok((kinds, out, main, named))
}

// ------------------------------------------------------------------------------------------
// allocation probe: a pass-through global allocator that remembers the largest single request, so that "allocates without bound"
// (C07) is observed directly and not only when the request happens to exceed the worker's address-space limit
pub struct ProbeAlloc;
static MAX_REQUEST: std::sync::atomic::AtomicUsize = std::sync::atomic::AtomicUsize::new(0);
unsafe impl std::alloc::GlobalAlloc for ProbeAlloc {
  unsafe fn alloc(&self, l: std::alloc::Layout) -> *mut u8 { MAX_REQUEST.fetch_max(l.size(), std::sync::atomic::Ordering::Relaxed); std::alloc::System.alloc(l) }
  unsafe fn alloc_zeroed(&self, l: std::alloc::Layout) -> *mut u8 { MAX_REQUEST.fetch_max(l.size(), std::sync::atomic::Ordering::Relaxed); std::alloc::System.alloc_zeroed(l) }
  unsafe fn dealloc(&self, p: *mut u8, l: std::alloc::Layout) { std::alloc::System.dealloc(p, l) }
  unsafe fn realloc(&self, p: *mut u8, l: std::alloc::Layout, n: usize) -> *mut u8 { MAX_REQUEST.fetch_max(n, std::sync::atomic::Ordering::Relaxed); std::alloc::System.realloc(p, l, n) }
}
/// resets the probe; `largest_request()` then reports the largest single allocation request since
pub fn reset_alloc_probe() { MAX_REQUEST.store(0, std::sync::atomic::Ordering::Relaxed); }
pub fn largest_request() -> usize { MAX_REQUEST.load(std::sync::atomic::Ordering::Relaxed) }
