//! `gen::program`: typed, constructive program generator shared by C06, C07, C10 and C19.
//! A program is derived deterministically from a vector of u32 "choices" (generated and shrunk by
//! proptest): fewer / smaller choices ⇒ shorter / simpler programs.

use serde::{Deserialize, Serialize};

#[derive(Clone, Debug, PartialEq)]
pub enum Shape { S, Row(usize), Col(usize), Mat(usize, usize) }

#[derive(Clone, Debug, PartialEq)]
pub enum Ty { Num(&'static str, Shape), Bool(Shape), Str, Set, Table, Tuple, Record, Opaque }

#[derive(Clone, Debug)]
pub struct Var { pub name: String, pub ty: Ty, pub mutable: bool }

#[derive(Clone, Debug, Default, Serialize, Deserialize)]
pub struct Program {
  pub lines: Vec<String>,
  /// contains `=` / `op=` statements
  pub mutating: bool,
  /// only literals, variables, operators, ranges, indexing, assignment over numeric / bool / string values
  pub core: bool,
  /// contains a non-commutative operator with distinct operands, or an indexing / assignment step
  pub order_sensitive: bool,
  pub features: Vec<String>,
}

struct Src<'a> { c: &'a [u32], i: usize }
impl<'a> Src<'a> {
  fn next(&mut self) -> u32 { let v = self.c.get(self.i).copied().unwrap_or(0); self.i += 1; v }
  fn pick(&mut self, n: usize) -> usize { if n == 0 { 0 } else { (self.next() as usize) % n } }
  fn done(&self) -> bool { self.i >= self.c.len() }
}

fn num_lit(kind: &str, v: u32) -> String {
  // a quarter of the literals of signed and float kinds carry a minus sign (`-5<i8>`, `-2.5`): negation applied directly to a literal
  let neg = if (v / 27) % 4 == 1 && !kind.starts_with('u') && kind != "r64" && kind != "c64" { "-" } else { "" };
  match kind {
    "f64" => format!("{}{}.{}", neg, v % 9 + 1, [0, 5, 25][(v / 9) as usize % 3]),
    "f32" => format!("{}{}.{}<f32>", neg, v % 9 + 1, [0, 5, 25][(v / 9) as usize % 3]),
    "r64" => format!("{}/{}", v % 9 + 1, [7, 2, 3][(v / 9) as usize % 3]),
    "c64" => format!("{}+{}i", v % 9 + 1, (v / 9) % 7 + 2),
    k => format!("{}{}<{}>", neg, v % 9 + 1, k),
  }
}

/// all element kinds; a choice word below 4 keeps the four kinds older case files were written with
const ALLK: [&str; 14] = ["f64", "u8", "i32", "u16", "u32", "u64", "u128", "i8", "i16", "i64", "i128", "f32", "r64", "c64"];
fn kind_of(w: u32) -> &'static str {
  if w < 4 { return ["f64", "f64", "u8", "i32"][w as usize]; }
  // half f64 (no conversion step: typed values cannot be run from bytecode at this commit, a listed C06 finding, so they end the
  // differential early), a quarter the two kinds of older case files, a quarter any of the 14 kinds
  match (w / 4) % 4 { 0 | 1 => "f64", 2 => ["u8", "i32"][(w % 2) as usize], _ => ALLK[(w / 16) as usize % 14] }
}
fn is_unsigned(k: &str) -> bool { k.starts_with('u') }
pub const STRS: [&str; 8] = ["hello", "a b", "", "héllo wörld", "日本", "😀 ok", "q\\\"uote", "tab\\there"];

fn mat_lit(kind: &str, r: usize, c: usize, s: &mut Src) -> String {
  let mut rows = vec![];
  for _ in 0..r { let mut row = vec![]; for _ in 0..c { let v = s.next(); row.push(if kind == "f64" { format!("{}.{}", v % 9 + 1, [0, 5][(v / 9) as usize % 2]) } else if matches!(kind, "f32" | "r64" | "c64") { num_lit(kind, v) } else { format!("{}", v % 9 + 1) }); } rows.push(row.join(" ")); }
  format!("[{}]", rows.join("; "))
}

#[derive(Clone, Copy, Debug, PartialEq, Eq)]
pub struct Opts { pub allow_mutation: bool, pub allow_noncore: bool, pub max_stmts: usize, pub trailing_other: bool }

pub fn build(choices: &[u32], o: Opts) -> Program {
  let mut s = Src { c: choices, i: 0 };
  let mut env: Vec<Var> = vec![];
  let mut p = Program { core: true, ..Default::default() };
  let mut n = 0usize;
  let kinds: [&'static str; 4] = ["f64", "f64", "u8", "i32"];
  let fresh = |n: &mut usize| { *n += 1; format!("v{}", *n) };
  let feat = |p: &mut Program, f: &str| { if !p.features.iter().any(|x| x == f) { p.features.push(f.to_string()); } };
  while !s.done() && p.lines.len() < o.max_stmts {
    let sel = s.pick(if o.allow_noncore { 22 } else { 15 });
    let nums: Vec<Var> = env.iter().filter(|v| matches!(v.ty, Ty::Num(..))).cloned().collect();
    let bools: Vec<Var> = env.iter().filter(|v| matches!(v.ty, Ty::Bool(_))).cloned().collect();
    let mats: Vec<Var> = env.iter().filter(|v| matches!(&v.ty, Ty::Num(_, sh) if *sh != Shape::S)).cloned().collect();
    match sel {
      0 | 1 => { // scalar define (typed or not), sometimes mutable
        let k = kind_of(s.next()); let name = fresh(&mut n); let m = o.allow_mutation && s.pick(2) == 0;
        let v = s.next();
        let text = if k == "f64" { format!("{}{} := {}", if m { "~" } else { "" }, name, num_lit(k, v)) } else if s.pick(2) == 0 && !matches!(k, "r64" | "c64") { format!("{}{}<{}> := {}", if m { "~" } else { "" }, name, k, v % 9 + 1) } else { format!("{}{} := {}", if m { "~" } else { "" }, name, num_lit(k, v)) };
        if k != "f64" { feat(&mut p, "typed-scalar"); }
        p.lines.push(text); env.push(Var { name, ty: Ty::Num(k, Shape::S), mutable: m });
      }
      2 => { let name = fresh(&mut n); let w = s.next() as usize; let v = if w < 4 { w } else { (w / 4) % 8 }; p.lines.push(format!("{} := \"{}\"", name, STRS[v])); if !STRS[v].is_ascii() { feat(&mut p, "string-non-ascii"); } feat(&mut p, "string"); env.push(Var { name, ty: Ty::Str, mutable: false }); }
      3 => { let name = fresh(&mut n); p.lines.push(format!("{} := {}", name, ["true", "false"][s.pick(2)])); env.push(Var { name, ty: Ty::Bool(Shape::S), mutable: false }); }
      4 | 5 => { // matrix define
        let k = kind_of(s.next()); let name = fresh(&mut n); let m = o.allow_mutation && s.pick(3) == 0;
        let sw = s.next() as usize;
        let (r, c) = if sw < 7 || (sw / 7) % 3 != 0 { [(1, 3), (3, 1), (2, 2), (2, 3), (1, 2), (4, 1), (4, 2)][sw % 7] } else { [(5, 1), (6, 1), (1, 5), (1, 7), (5, 2), (3, 3), (7, 1)][(sw / 21) % 7] };
        let lit = mat_lit(k, r, c, &mut s);
        let text = if matches!(k, "f64" | "f32" | "r64" | "c64") { format!("{}{} := {}", if m { "~" } else { "" }, name, lit) } else { format!("{}{}<[{}]> := {}", if m { "~" } else { "" }, name, k, lit) };
        if k != "f64" { feat(&mut p, "typed-matrix"); }
        if r == 4 { feat(&mut p, "four-row-vertcat"); }
        if r >= 5 { feat(&mut p, "tall-vertcat"); }
        let sh = if r == 1 { Shape::Row(c) } else if c == 1 { Shape::Col(r) } else { Shape::Mat(r, c) };
        p.lines.push(text); env.push(Var { name, ty: Ty::Num(k, sh), mutable: m });
      }
      6 | 7 if !nums.is_empty() => { // binary arithmetic / comparison between compatible operands
        let a = nums[s.pick(nums.len())].clone();
        let Ty::Num(ka, sha) = a.ty.clone() else { continue };
        // partner: same kind and (same shape or scalar), else a literal
        let partners: Vec<Var> = nums.iter().filter(|b| matches!(&b.ty, Ty::Num(kb, shb) if *kb == ka && (*shb == sha || *shb == Shape::S || sha == Shape::S))).cloned().collect();
        let (btxt, bsh, distinct) = if !partners.is_empty() && s.pick(4) != 0 { let b = partners[s.pick(partners.len())].clone(); let Ty::Num(_, shb) = b.ty.clone() else { continue }; let d = b.name != a.name; (b.name, shb, d) } else { (num_lit(ka, s.next()), Shape::S, true) };
        let op = ["+", "-", "*", "/", ">", "<=", "==", "-", "/"][s.pick(9)];
        let name = fresh(&mut n);
        let swap = s.pick(2) == 0;
        let (l, r) = if swap { (btxt.clone(), a.name.clone()) } else { (a.name.clone(), btxt.clone()) };
        let rsh = if sha == Shape::S { bsh } else { sha };
        if matches!(op, "-" | "/" | ">" | "<=") && distinct { p.order_sensitive = true; }
        feat(&mut p, if matches!(op, ">" | "<=" | "==") { "comparison" } else { "arithmetic" });
        p.lines.push(format!("{} := {} {} {}", name, l, op, r));
        env.push(Var { name, ty: if matches!(op, ">" | "<=" | "==") { Ty::Bool(rsh) } else { Ty::Num(ka, rsh) }, mutable: false });
      }
      8 if !bools.is_empty() => { // logic
        let a = bools[s.pick(bools.len())].clone(); let Ty::Bool(sha) = a.ty.clone() else { continue };
        let partners: Vec<Var> = bools.iter().filter(|b| matches!(&b.ty, Ty::Bool(shb) if *shb == sha)).cloned().collect();
        let b = partners[s.pick(partners.len())].clone();
        let name = fresh(&mut n);
        if s.pick(3) == 0 { p.lines.push(format!("{} := !{}", name, a.name)); } else { p.lines.push(format!("{} := {} {} {}", name, a.name, ["&&", "||", "⊕"][s.pick(3)], b.name)); }
        feat(&mut p, "logic");
        env.push(Var { name, ty: Ty::Bool(sha), mutable: false });
      }
      9 if !nums.is_empty() => { // unary minus / transpose
        let a = nums[s.pick(nums.len())].clone(); let Ty::Num(k, sh) = a.ty.clone() else { continue };
        if is_unsigned(k) { continue; }
        let name = fresh(&mut n);
        if sh != Shape::S && s.pick(2) == 0 {
          let tsh = match sh { Shape::Row(c) => Shape::Col(c), Shape::Col(r) => Shape::Row(r), Shape::Mat(r, c) => Shape::Mat(c, r), Shape::S => Shape::S };
          p.lines.push(format!("{} := {}'", name, a.name)); feat(&mut p, "transpose"); p.core = false;
          env.push(Var { name, ty: Ty::Num(k, tsh), mutable: false });
        } else {
          p.lines.push(format!("{} := -{}", name, a.name)); feat(&mut p, if sh == Shape::S { "negate-scalar" } else { "negate-matrix" });
          env.push(Var { name, ty: Ty::Num(k, sh), mutable: false });
        }
      }
      10 => { // range
        let name = fresh(&mut n); let a = s.pick(4) + 1; let len = s.pick(5) + 2;
        let text = match s.pick(3) { 0 => format!("{} := {}..{}", name, a, a + len), 1 => format!("{} := {}..={}", name, a, a + len - 1), _ => format!("{} := {}..2..={}", name, a, a + 2 * (len - 1)) };
        feat(&mut p, "range");
        p.lines.push(text); env.push(Var { name, ty: Ty::Num("f64", Shape::Row(len)), mutable: false });
      }
      11 | 12 if !mats.is_empty() => { // indexing
        let a = mats[s.pick(mats.len())].clone(); let Ty::Num(k, sh) = a.ty.clone() else { continue };
        let (r, c) = match sh { Shape::Row(c) => (1, c), Shape::Col(r) => (r, 1), Shape::Mat(r, c) => (r, c), Shape::S => (1, 1) };
        let name = fresh(&mut n);
        let total = r * c;
        let (idx, rsh) = match s.pick(5) {
          0 => (format!("{}", s.pick(total) + 1), Shape::S),
          1 if r > 1 && c > 1 => (format!("{},{}", s.pick(r) + 1, s.pick(c) + 1), Shape::S),
          2 if total >= 3 => (format!("[{} {}]", s.pick(total) + 1, s.pick(total) + 1), Shape::Col(2)),
          3 if total >= 3 => { let lo = s.pick(total - 1) + 1; (format!("{}..={}", lo, lo + 1), Shape::Col(2)) }
          4 if r > 1 && c > 1 => (format!(":,{}", s.pick(c) + 1), Shape::Col(r)),
          _ => (format!("{}", s.pick(total) + 1), Shape::S),
        };
        p.order_sensitive = true; feat(&mut p, "indexing");
        p.lines.push(format!("{} := {}[{}]", name, a.name, idx));
        env.push(Var { name, ty: Ty::Num(k, rsh), mutable: false });
      }
      13 | 14 | 9 | 16 if o.allow_mutation && env.iter().any(|v| v.mutable) && (sel == 13 || sel == 14 || s.pick(2) == 0) => { // assignment / op-assignment / indexed assignment
        let ms: Vec<Var> = env.iter().filter(|v| v.mutable).cloned().collect();
        let a = ms[s.pick(ms.len())].clone(); let Ty::Num(k, sh) = a.ty.clone() else { continue };
        let lit = num_lit(k, s.next());
        let text = match (&sh, s.pick(4)) {
          (Shape::S, 0) => format!("{} = {}", a.name, lit),
          (Shape::S, _) => format!("{} {} {}", a.name, ["+=", "-=", "*=", "/="][s.pick(4)], lit),
          (_, 0) => format!("{}[{}] = {}", a.name, s.pick(2) + 1, lit),
          (_, 1) => format!("{}[[1 2]] {} {}", a.name, ["+=", "-=", "*="][s.pick(3)], lit),
          (_, _) => format!("{} {} {}", a.name, ["+=", "-=", "*="][s.pick(3)], lit),
        };
        p.mutating = true; p.order_sensitive = true; feat(&mut p, "assignment");
        p.lines.push(text);
      }
      15 if !nums.is_empty() => { // stdlib call
        let a = nums[s.pick(nums.len())].clone(); let Ty::Num(k, sh) = a.ty.clone() else { continue };
        if k != "f64" { continue; }
        let name = fresh(&mut n);
        p.core = false; feat(&mut p, "stdlib-call");
        if sh != Shape::S && s.pick(2) == 0 {
          // reductions / structural functions on matrices; result shape is not tracked (the variable is not reused)
          let f = ["stats/sum/row", "stats/sum/column", "matrix/transpose", "stats/sum/row", "stats/sum/column"][s.pick(5)];
          p.lines.push(format!("{} := {}({})", name, f, a.name)); feat(&mut p, f);
          env.push(Var { name, ty: Ty::Opaque, mutable: false });
        } else if sh == Shape::S && s.pick(4) == 0 {
          let b = nums.iter().filter(|b| matches!(&b.ty, Ty::Num("f64", Shape::S))).last().cloned().unwrap_or(a.clone());
          p.lines.push(format!("{} := math/atan2({}, {})", name, a.name, b.name)); if a.name != b.name { p.order_sensitive = true; }
          env.push(Var { name, ty: Ty::Num(k, Shape::S), mutable: false });
        } else {
          let f = ["math/sin", "math/cos", "math/sqrt", "math/abs", "math/floor", "math/round", "math/tanh", "math/atan", "math/ceil", "math/trunc"][s.pick(10)];
          p.lines.push(format!("{} := {}({})", name, f, a.name));
          env.push(Var { name, ty: Ty::Num(k, sh), mutable: false });
        }
      }
      16 => { // set literal; one choice word: below 5 it is the f64 set older case files were written with, above it selects the element kind
        let name = fresh(&mut n); let w = s.next() as usize; let a = w % 5; let variant = if w < 5 { 0 } else { (w / 5) % 8 };
        let el = |i: usize| -> String { let v = (a + i) as u32; match variant { 0 | 1 => format!("{}", v + 1), 2 => format!("{}<u8>", v + 1), 3 => format!("\"{}\"", STRS[(v as usize) % 8]), 4 => format!("{}/7", v + 1), 5 => format!("{}+{}i", v + 1, v + 3), 6 => format!("{}<i64>", v + 1), _ => format!("({}, \"{}\")", v + 1, STRS[(v as usize + 3) % 8]) } };
        p.lines.push(format!("{} := {{{}, {}, {}}}", name, el(0), el(1), el(0))); p.core = false; feat(&mut p, "set");
        if variant >= 2 { feat(&mut p, ["", "", "set-u8", "set-string", "set-r64", "set-c64", "set-i64", "set-tuple"][variant]); }
        env.push(Var { name, ty: Ty::Set, mutable: false }); }
      17 => { // table literal: 1-4 columns of mixed kinds x 1-4 rows (one choice decides everything, so older case files stay aligned)
        let name = fresh(&mut n); let w = s.next() as usize; let a = w % 5;
        let (ncols, nrows) = (1 + (w / 5) % 4, 1 + (w / 20) % 4);
        let kinds: Vec<usize> = (0..ncols).map(|c| if (w / 80) % 3 == 0 { 0 } else { (w / 240 + c * 7 + c * c) % 4 }).collect();
        // (a high part of the same choice word widens the column kinds: i64, f32, r64, c64 columns and non-ASCII strings)
        let wide = (w / 960) % 3 != 0;
        let kinds: Vec<usize> = if wide { kinds.iter().enumerate().map(|(c, k)| (k + (w / 2880 + c * 3) % 8) % 8).collect() } else { kinds };
        let header: Vec<String> = (0..ncols).map(|c| format!("{}<{}>", ["x", "y", "z", "w"][c], ["f64", "u8", "bool", "string", "i64", "f32", "r64", "c64"][kinds[c]])).collect();
        let rows: Vec<String> = (0..nrows).map(|r| (0..ncols).map(|c| { let v = a + r * ncols + c; match kinds[c] { 0 => format!("{}", v), 1 => format!("{}", v % 200), 2 => format!("{}", v % 2 == 0), 3 => if wide { format!("\"{}{}\"", STRS[v % 6], v) } else { format!("\"s{}\"", v) }, 4 => format!("{}", v), 5 => format!("{}.5", v), 6 => format!("{}/7", v + 1), _ => format!("{}+{}i", v, v + 2) } }).collect::<Vec<_>>().join(" ")).collect();
        if wide { feat(&mut p, "table-wide-kinds"); }
        p.lines.push(format!("{} := | {} | {} |", name, header.join(" "), rows.join(" | ")));
        p.core = false; feat(&mut p, "table"); if ncols != nrows { feat(&mut p, "table-non-square"); }
        env.push(Var { name, ty: Ty::Table, mutable: false });
      }
      18 => { let name = fresh(&mut n); let a = s.pick(5); p.lines.push(format!("{} := ({}, \"t\")", name, a)); p.core = false; feat(&mut p, "tuple"); env.push(Var { name, ty: Ty::Tuple, mutable: false }); }
      19 => { let name = fresh(&mut n); let a = s.pick(5); p.lines.push(format!("{} := {{x: {}, y: \"r\"}}", name, a)); p.core = false; feat(&mut p, "record"); env.push(Var { name, ty: Ty::Record, mutable: false }); }
      20 => { // user function definition + call
        let name = fresh(&mut n); let f = format!("f{}", n);
        p.lines.push(format!("{}(x<f64>) => <f64>\n  ├ 0 => 10\n  └ k => k * 2.", f));
        p.lines.push(format!("{} := {}({})", name, f, s.pick(4)));
        p.core = false; feat(&mut p, "user-function");
        env.push(Var { name, ty: Ty::Num("f64", Shape::S), mutable: false });
      }
      21 => { // comprehension over a fresh set
        let name = fresh(&mut n); let a = s.pick(4);
        p.lines.push(format!("{}s := {{{}, {}, {}}}", name, a + 1, a + 2, a + 3));
        p.lines.push(format!("{} := {{q * 2 | q <- {}s}}", name, name));
        p.core = false; feat(&mut p, "comprehension");
        env.push(Var { name, ty: Ty::Set, mutable: false });
      }
      _ => {}
    }
  }
  if p.lines.is_empty() { p.lines.push("v0 := 1.5".to_string()); }
  // final expression: a reference to the last defined variable (so the program's result is a value of interest)
  // (after an assignment the assigned variable is the one touched last)
  let last_assigned = p.lines.last().and_then(|l| if l.contains(":=") { None } else { l.split(|c: char| !c.is_alphanumeric()).next().map(|s| s.to_string()) }).filter(|n| env.iter().any(|v| &v.name == n));
  // (decided by the last choice word, so that shrinking towards small numbers keeps the plain variable reference)
  let tailw = choices.last().copied().unwrap_or(0) as usize;
  if !o.trailing_other && tailw >= 8 && tailw % 5 == 4 {
    let n = 2 + (tailw / 5) % 6;
    let el = |i: usize| format!("{}.{}", (tailw / 7 + i) % 9 + 1, [0, 5][(tailw / 3 + i) % 2]);
    let lit = match (tailw / 40) % 3 { 0 => format!("[{}]", (0..n).map(el).collect::<Vec<_>>().join("; ")), 1 => format!("[{}]", (0..n).map(el).collect::<Vec<_>>().join(" ")), _ => format!("[{} {}; {} {}; {} {}]", el(0), el(1), el(2), el(3), el(4), el(5)) };
    p.lines.push(lit); p.features.push("trailing-literal-expression".into());
    return p;
  }
  if o.trailing_other && env.len() >= 2 { p.lines.push(env[0].name.clone()); p.features.push("trailing-reference-to-earlier-variable".into()); }
  else if let Some(a) = last_assigned { p.lines.push(a); }
  else if let Some(last) = env.last() { p.lines.push(last.name.clone()); }
  p
}

impl Program {
  pub fn source(&self) -> String { self.lines.join("\n") }
}
