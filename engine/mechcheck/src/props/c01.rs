//! C01 Elementwise operators: same result for every shape, kind and broadcast form.

use crate::engine::*;
use crate::gen::*;
use crate::kinds::*;
use crate::mech::*;
use crate::rval::*;
use num_bigint::BigInt;
use num_traits::{Signed, ToPrimitive, Zero};
use proptest::prelude::*;
use serde::{Deserialize, Serialize};
use std::collections::HashMap;

pub struct C01;

#[derive(Clone, Copy, Debug, PartialEq, Eq, Hash, PartialOrd, Ord, Serialize, Deserialize)]
pub enum Op { Add, Sub, Mul, Div, Mod, Pow, Neg, Eq, Ne, Lt, Le, Gt, Ge, And, Or, Xor, Not }

pub const ARITH: [Op; 6] = [Op::Add, Op::Sub, Op::Mul, Op::Div, Op::Mod, Op::Pow];
pub const CMP: [Op; 6] = [Op::Eq, Op::Ne, Op::Lt, Op::Le, Op::Gt, Op::Ge];
pub const LOGIC: [Op; 3] = [Op::And, Op::Or, Op::Xor];

impl Op {
  pub fn sym(&self) -> &'static str {
    match self {
      Op::Add => "+", Op::Sub => "-", Op::Mul => "*", Op::Div => "/", Op::Mod => "%", Op::Pow => "^", Op::Neg => "-",
      Op::Eq => "==", Op::Ne => "!=", Op::Lt => "<", Op::Le => "<=", Op::Gt => ">", Op::Ge => ">=",
      Op::And => "&&", Op::Or => "||", Op::Xor => "⊕", Op::Not => "!",
    }
  }
  pub fn name(&self) -> String { format!("{:?}", self).to_lowercase() }
  pub fn unary(&self) -> bool { matches!(self, Op::Neg | Op::Not) }
  pub fn is_cmp(&self) -> bool { CMP.contains(self) }
  pub fn is_logic(&self) -> bool { matches!(self, Op::And | Op::Or | Op::Xor | Op::Not) }
  pub fn render(&self, a: &str, b: Option<&str>) -> String {
    match b { Some(b) => format!("{} {} {}", a, self.sym(), b), None => format!("{}{}", self.sym(), a) }
  }
}

#[derive(Clone, Copy, Debug, PartialEq, Eq, Hash, Serialize, Deserialize)]
pub enum Class { Compat, Incompat, Scalar }

#[derive(Clone, Debug, Serialize, Deserialize)]
pub struct Case {
  pub op: Op,
  pub class: Class,
  pub lhs: Opnd,
  pub rhs: Option<Opnd>,
}

// ------------------------------------------------------------------------------------------
// scalar reference model (clause d)

pub enum Expect { Exactly(Sc), OneOf(Vec<Sc>), ApproxF64(f64), ApproxF32(f32), Unconstrained(&'static str) }

fn ipow(a: &BigInt, e: u32) -> BigInt { let mut r = BigInt::from(1); for _ in 0..e { r *= a; } r }

pub fn model(op: Op, a: &Sc, b: Option<&Sc>) -> Expect {
  use Expect::*;
  match (a, b) {
    (Sc::U(..) | Sc::I(..), _) => {
      let k = sc_kind(a).unwrap();
      let x = sc_int(a).unwrap();
      if op == Op::Neg {
        let r = -x;
        return if k.fits(&r) && k.is_signed() { Exactly(k.int_sc(&r)) } else { Unconstrained("neg-unrepresentable") };
      }
      let Some(bs) = b else { return Unconstrained("unary-on-int") };
      let Some(y) = sc_int(bs) else { return Unconstrained("mixed") };
      let fit = |r: BigInt| if k.fits(&r) { Exactly(k.int_sc(&r)) } else { Unconstrained("overflow") };
      match op {
        Op::Add => fit(x + y),
        Op::Sub => fit(x - y),
        Op::Mul => fit(x * y),
        Op::Div => if y.is_zero() { Unconstrained("div0") } else if (&x % &y).is_zero() { fit(x / y) } else { Unconstrained("inexact-div") },
        Op::Mod => if y.is_zero() { Unconstrained("mod0") } else {
          let t = &x % &y; // truncated (sign of dividend)
          let f = ((&x % &y) + &y) % &y; // floored (sign of divisor)
          let mut v = vec![];
          if k.fits(&t) { v.push(k.int_sc(&t)); }
          if k.fits(&f) && f != t { v.push(k.int_sc(&f)); }
          if v.is_empty() { Unconstrained("mod-unrepresentable") } else { OneOf(v) }
        },
        Op::Pow => if y.is_negative() { Unconstrained("neg-exponent") } else {
          match y.to_u32() {
            None => Unconstrained("huge-exponent"),
            Some(e) => {
              if x.abs() <= BigInt::from(1) {
                let r = if e == 0 { BigInt::from(1) } else if x.is_zero() { BigInt::from(0) } else if x.is_negative() && e % 2 == 1 { BigInt::from(-1) } else { BigInt::from(1) };
                fit(r)
              } else if e <= 200 { fit(ipow(&x, e)) } else { Unconstrained("overflow") }
            }
          }
        },
        Op::Eq => Exactly(Sc::Bool(x == y)), Op::Ne => Exactly(Sc::Bool(x != y)),
        Op::Lt => Exactly(Sc::Bool(x < y)), Op::Le => Exactly(Sc::Bool(x <= y)),
        Op::Gt => Exactly(Sc::Bool(x > y)), Op::Ge => Exactly(Sc::Bool(x >= y)),
        _ => Unconstrained("logic-on-number"),
      }
    }
    (Sc::F64(xb), _) => {
      let x = f64::from_bits(*xb);
      if op == Op::Neg { return Exactly(f64b(-x)); }
      let Some(Sc::F64(yb)) = b else { return Unconstrained("mixed") };
      let y = f64::from_bits(*yb);
      match op {
        Op::Add => Exactly(f64b(x + y)), Op::Sub => Exactly(f64b(x - y)), Op::Mul => Exactly(f64b(x * y)), Op::Div => Exactly(f64b(x / y)),
        Op::Mod => { let t = x % y; let f = x.rem_euclid(y); let fl = x - y * (x / y).floor(); let mut v = vec![f64b(t)]; if f.to_bits() != t.to_bits() { v.push(f64b(f)); } v.push(f64b(fl)); OneOf(v) }
        Op::Pow => ApproxF64(x.powf(y)),
        Op::Eq => Exactly(Sc::Bool(x == y)), Op::Ne => Exactly(Sc::Bool(x != y)),
        Op::Lt => Exactly(Sc::Bool(x < y)), Op::Le => Exactly(Sc::Bool(x <= y)),
        Op::Gt => Exactly(Sc::Bool(x > y)), Op::Ge => Exactly(Sc::Bool(x >= y)),
        _ => Unconstrained("logic-on-number"),
      }
    }
    (Sc::F32(xb), _) => {
      let x = f32::from_bits(*xb);
      if op == Op::Neg { return Exactly(f32b(-x)); }
      let Some(Sc::F32(yb)) = b else { return Unconstrained("mixed") };
      let y = f32::from_bits(*yb);
      match op {
        Op::Add => Exactly(f32b(x + y)), Op::Sub => Exactly(f32b(x - y)), Op::Mul => Exactly(f32b(x * y)), Op::Div => Exactly(f32b(x / y)),
        Op::Mod => { let t = x % y; let f = x.rem_euclid(y); let fl = x - y * (x / y).floor(); OneOf(vec![f32b(t), f32b(f), f32b(fl)]) }
        Op::Pow => ApproxF32(x.powf(y)),
        Op::Eq => Exactly(Sc::Bool(x == y)), Op::Ne => Exactly(Sc::Bool(x != y)),
        Op::Lt => Exactly(Sc::Bool(x < y)), Op::Le => Exactly(Sc::Bool(x <= y)),
        Op::Gt => Exactly(Sc::Bool(x > y)), Op::Ge => Exactly(Sc::Bool(x >= y)),
        _ => Unconstrained("logic-on-number"),
      }
    }
    (Sc::R(_, d1), _) if *d1 == 0 => Unconstrained("zero-denominator"),
    (_, Some(Sc::R(_, d2))) if *d2 == 0 => Unconstrained("zero-denominator"),
    (Sc::R(n1, d1), _) => {
      use num_rational::Ratio;
      let x = Ratio::new(BigInt::from(*n1), BigInt::from(*d1));
      let to_sc = |r: Ratio<BigInt>| -> Expect {
        match (r.numer().to_i64(), r.denom().to_i64()) { (Some(n), Some(d)) => Exactly(Sc::R(n, d)), _ => Unconstrained("overflow") }
      };
      if op == Op::Neg { return to_sc(-x); }
      let Some(Sc::R(n2, d2)) = b else { return Unconstrained("mixed") };
      let y = Ratio::new(BigInt::from(*n2), BigInt::from(*d2));
      match op {
        Op::Add => to_sc(x + y), Op::Sub => to_sc(x - y), Op::Mul => to_sc(x * y),
        Op::Div => if y.is_zero() { Unconstrained("div0") } else { to_sc(x / y) },
        Op::Eq => Exactly(Sc::Bool(x == y)), Op::Ne => Exactly(Sc::Bool(x != y)),
        Op::Lt => Exactly(Sc::Bool(x < y)), Op::Le => Exactly(Sc::Bool(x <= y)),
        Op::Gt => Exactly(Sc::Bool(x > y)), Op::Ge => Exactly(Sc::Bool(x >= y)),
        _ => Unconstrained("rational-op-unspecified"),
      }
    }
    (Sc::Bool(x), _) => {
      if op == Op::Not { return Exactly(Sc::Bool(!x)); }
      let Some(Sc::Bool(y)) = b else { return Unconstrained("mixed") };
      match op {
        Op::And => Exactly(Sc::Bool(*x && *y)), Op::Or => Exactly(Sc::Bool(*x || *y)), Op::Xor => Exactly(Sc::Bool(*x ^ *y)),
        Op::Eq => Exactly(Sc::Bool(x == y)), Op::Ne => Exactly(Sc::Bool(x != y)),
        _ => Unconstrained("arith-on-bool"),
      }
    }
    (Sc::Str(x), Some(Sc::Str(y))) => match op {
      Op::Eq => Exactly(Sc::Bool(x == y)), Op::Ne => Exactly(Sc::Bool(x != y)),
      Op::Add => Exactly(Sc::Str(format!("{}{}", x, y))),
      _ => Unconstrained("string-op"),
    },
    _ => Unconstrained("complex-or-other"),
  }
}

fn ulps64(a: f64, b: f64) -> u64 {
  if a.is_nan() && b.is_nan() { return 0; }
  if a.is_nan() || b.is_nan() { return u64::MAX; }
  if a == b { return 0; }
  let (ia, ib) = (a.to_bits() as i64, b.to_bits() as i64);
  let fix = |i: i64| if i < 0 { i64::MIN - i } else { i };
  (fix(ia) as i128 - fix(ib) as i128).unsigned_abs() as u64
}

fn meets(e: &Expect, got: &RVal) -> Result<(), String> {
  let RVal::S(g) = got else { return Err(format!("result {} is not a scalar", got.show())) };
  match e {
    Expect::Exactly(s) => if g == s { Ok(()) } else { Err(format!("expected {} got {}", s.show(), g.show())) },
    Expect::OneOf(v) => if v.contains(g) { Ok(()) } else { Err(format!("expected one of {:?} got {}", v.iter().map(|s| s.show()).collect::<Vec<_>>(), g.show())) },
    Expect::ApproxF64(x) => match g { Sc::F64(b) if ulps64(f64::from_bits(*b), *x) <= 2 => Ok(()), _ => Err(format!("expected ≈{:?} got {}", x, g.show())) },
    Expect::ApproxF32(x) => match g { Sc::F32(b) if ulps64(f32::from_bits(*b) as f64, *x as f64) <= (2u64 << 29) => Ok(()), _ => Err(format!("expected ≈{:?} got {}", x, g.show())) },
    Expect::Unconstrained(_) => Ok(()),
  }
}

// ------------------------------------------------------------------------------------------
// generators

fn ops_for(ek: EK) -> Vec<Op> {
  match ek {
    EK::N(_) => { let mut v = ARITH.to_vec(); v.extend(CMP); v.push(Op::Neg); v }
    EK::Bool => vec![Op::And, Op::Or, Op::Xor, Op::Not, Op::Eq, Op::Ne],
    EK::Str => vec![Op::Eq, Op::Ne, Op::Add],
  }
}

fn pool_for(op: Op, class: Class) -> BoxedStrategy<Pool> {
  match (op, class) {
    (_, Class::Scalar) => prop_oneof![Just(Pool::Small), Just(Pool::Boundary), Just(Pool::Mixed)].boxed(),
    (Op::Mul | Op::Pow, _) => Just(Pool::Small).boxed(),
    _ => prop_oneof![3 => Just(Pool::Small), 1 => Just(Pool::Mixed)].boxed(),
  }
}

/// (lhs shape, rhs shape) as (scalar?, rows, cols) pairs that the statement lists as compatible
fn compat_shapes(maxd: usize) -> BoxedStrategy<((bool, usize, usize), (bool, usize, usize))> {
  let any_mat = prop_oneof![
    Just((1usize, 1usize)),
    (2..=maxd).prop_map(|n| (1, n)),
    (2..=maxd).prop_map(|n| (n, 1)),
    (2..=maxd, 2..=maxd),
  ];
  prop_oneof![
    // equal shapes
    3 => any_mat.clone().prop_map(|(r, c)| ((false, r, c), (false, r, c))),
    // scalar with matrix, either side
    2 => any_mat.clone().prop_map(|(r, c)| ((true, 1, 1), (false, r, c))),
    2 => any_mat.clone().prop_map(|(r, c)| ((false, r, c), (true, 1, 1))),
    // matrix with matching row / column vector, either side
    1 => (2..=maxd, 2..=maxd).prop_map(|(r, c)| ((false, r, c), (false, 1, c))),
    1 => (2..=maxd, 2..=maxd).prop_map(|(r, c)| ((false, r, c), (false, r, 1))),
    1 => (2..=maxd, 2..=maxd).prop_map(|(r, c)| ((false, 1, c), (false, r, c))),
    1 => (2..=maxd, 2..=maxd).prop_map(|(r, c)| ((false, r, 1), (false, r, c))),
  ].boxed()
}

fn incompat_shapes(maxd: usize) -> BoxedStrategy<((bool, usize, usize), (bool, usize, usize))> {
  let d = move || 2..=maxd;
  prop_oneof![
    // same form, different dims
    (d(), d()).prop_filter_map("eq", |(n, m)| if n != m { Some(((false, 1, n), (false, 1, m))) } else { None }),
    (d(), d()).prop_filter_map("eq", |(n, m)| if n != m { Some(((false, n, 1), (false, m, 1))) } else { None }),
    (d(), d(), d(), d()).prop_filter_map("eq", |(r, c, r2, c2)| if (r, c) != (r2, c2) { Some(((false, r, c), (false, r2, c2))) } else { None }),
    // same element count, different shape
    Just(((false, 2, 3), (false, 3, 2))),
    Just(((false, 3, 2), (false, 2, 3))),
    // row vs column
    (d(), d()).prop_map(|(n, m)| ((false, 1, n), (false, m, 1))),
    (d(), d()).prop_map(|(n, m)| ((false, n, 1), (false, 1, m))),
    // matrix vs non-matching vector
    (d(), d(), d()).prop_filter_map("eq", |(r, c, n)| if n != c { Some(((false, r, c), (false, 1, n))) } else { None }),
    (d(), d(), d()).prop_filter_map("eq", |(r, c, n)| if n != r { Some(((false, r, c), (false, n, 1))) } else { None }),
    (d(), d(), d()).prop_filter_map("eq", |(r, c, n)| if n != c { Some(((false, 1, n), (false, r, c))) } else { None }),
    (d(), d(), d()).prop_filter_map("eq", |(r, c, n)| if n != r { Some(((false, n, 1), (false, r, c))) } else { None }),
    // 1x1 matrix vs larger
    (d()).prop_map(|n| ((false, 1, 1), (false, 1, n))),
    (d()).prop_map(|n| ((false, n, 1), (false, 1, 1))),
    (d(), d()).prop_map(|(r, c)| ((false, r, c), (false, 1, 1))),
    (d(), d()).prop_map(|(r, c)| ((false, 1, 1), (false, r, c))),
  ].boxed()
}

fn case_strategy(maxd: usize, kinds: Vec<EK>) -> BoxedStrategy<Case> {
  (pick(kinds), prop_oneof![6 => Just(Class::Compat), 2 => Just(Class::Incompat), 2 => Just(Class::Scalar)])
    .prop_flat_map(move |(ek, class)| {
      (pick(ops_for(ek)), Just(ek), Just(class))
    })
    .prop_flat_map(move |(op, ek, class)| {
      let shapes = match class {
        Class::Compat => compat_shapes(maxd),
        Class::Incompat => incompat_shapes(maxd),
        Class::Scalar => Just(((true, 1usize, 1usize), (true, 1usize, 1usize))).boxed(),
      };
      (shapes, pool_for(op, class)).prop_flat_map(move |((l, r), pool)| {
        let lhs = opnd_strategy(ek, l.0, l.1, l.2, pool);
        if op.unary() {
          // unary: lhs only; incompatible class makes no sense → treat as compat
          lhs.prop_map(move |lhs| Case { op, class: if class == Class::Incompat { Class::Compat } else { class }, lhs, rhs: None }).boxed()
        } else {
          let rpool = if matches!(op, Op::Pow) { Pool::Small } else { pool };
          let rhs = opnd_strategy(ek, r.0, r.1, r.2, rpool);
          (lhs, rhs).prop_map(move |(lhs, rhs)| Case { op, class, lhs, rhs: Some(rhs) }).boxed()
        }
      })
    }).boxed()
}

impl Prop for C01 {
  type Case = Case;
  const ID: &'static str = "C01";
  fn budget(t: Tier) -> u32 { t.pick(6_000, 120_000) }
  fn strategy(t: Tier, _k: &Known) -> BoxedStrategy<Case> { case_strategy(t.pick(4, 9), all_ek()) }
  fn fixed_cases(t: Tier) -> Vec<Case> { stratified(t) }
  fn rule() -> &'static str {
    "case = (operator, element kind, lhs shape, rhs shape, class ∈ {compatible, incompatible, scalar}, element values); a stratified \
     enumeration covers every operator × kind × form pair once, the rest is random. Non-trivial = an operand is not a scalar, or a scalar \
     case drawn from the boundary/mixed pools; distinct key = (op, kind, lhs form, rhs form, class, outcome class)."
  }
  fn assumptions() -> Vec<String> {
    vec![
      "dev-profile semantics: integer overflow is an error (debug assertions on), not wrapping".into(),
      "nothing is demanded where the exact integer result is not representable, integer division is inexact, or a scalar evaluation itself errors".into(),
      "`%` with a negative operand may be the truncated or the floored remainder; float `^` within 2 ulp of powf".into(),
      "complex numbers: broadcast/acceptance/rejection clauses only (the scalar clause does not name them)".into(),
      "which error kind is produced is never compared".into(),
    ]
  }
  fn describe(c: &Case) -> String {
    format!("[{:?}] a = {}; {}`{}`", c.class, c.lhs.show(), c.rhs.as_ref().map(|r| format!("b = {}; ", r.show())).unwrap_or_default(), c.op.render("a", c.rhs.as_ref().map(|_| "b")))
  }
  fn check(c: &Case, _cx: &Cx) -> Verdict { check(c) }
}

/// one case per (op × kind × compatible form pair): the arm-coordinate sampling frame
fn stratified(t: Tier) -> Vec<Case> {
  let mut out = vec![];
  let forms: Vec<((bool, usize, usize), (bool, usize, usize))> = vec![
    ((true, 1, 1), (true, 1, 1)),
    ((false, 1, 1), (false, 1, 1)), ((false, 1, 3), (false, 1, 3)), ((false, 3, 1), (false, 3, 1)), ((false, 2, 3), (false, 2, 3)),
    ((true, 1, 1), (false, 1, 1)), ((true, 1, 1), (false, 1, 3)), ((true, 1, 1), (false, 3, 1)), ((true, 1, 1), (false, 2, 3)),
    ((false, 1, 1), (true, 1, 1)), ((false, 1, 3), (true, 1, 1)), ((false, 3, 1), (true, 1, 1)), ((false, 2, 3), (true, 1, 1)),
    ((false, 2, 3), (false, 1, 3)), ((false, 2, 3), (false, 2, 1)), ((false, 1, 3), (false, 2, 3)), ((false, 2, 1), (false, 2, 3)),
  ];
  let small = |ek: EK, i: usize| -> Sc {
    match ek {
      EK::N(k) if k.is_int() => k.int_sc(&BigInt::from([3, 1, 2, 5, 4, 6, 7][i % 7])),
      EK::N(K::F64) => f64b([3.0, 1.5, 2.0, 5.25, 4.0, 6.5, 7.0][i % 7]),
      EK::N(K::F32) => f32b([3.0, 1.5, 2.0, 5.25, 4.0, 6.5, 7.0][i % 7]),
      EK::N(K::R64) => [Sc::R(3, 1), Sc::R(1, 2), Sc::R(2, 3), Sc::R(5, 4), Sc::R(4, 1), Sc::R(7, 2), Sc::R(1, 3)][i % 7].clone(),
      EK::N(_) => [Sc::C(3f64.to_bits(), 1f64.to_bits()), Sc::C(1f64.to_bits(), 2f64.to_bits()), Sc::C(0f64.to_bits(), 1.5f64.to_bits())][i % 3].clone(),
      EK::Bool => Sc::Bool([true, false, true, true, false][i % 5]),
      EK::Str => Sc::Str(["a", "b", "ab", "", "c"][i % 5].to_string()),
    }
  };
  for ek in all_ek() {
    for op in ops_for(ek) {
      for (fi, (l, r)) in forms.iter().enumerate() {
        if t == Tier::Quick && !matches!(ek, EK::N(K::F64) | EK::N(K::U8) | EK::N(K::I64) | EK::N(K::R64) | EK::Bool) && fi % 3 != (op as usize) % 3 { continue; }
        let lhs = Opnd { scalar: l.0, rows: l.1, cols: l.2, data: (0..l.1 * l.2).map(|i| small(ek, i + 1)).collect() };
        if op.unary() {
          if l != r { continue; }
          out.push(Case { op, class: if l.0 { Class::Scalar } else { Class::Compat }, lhs, rhs: None });
        } else {
          let rhs = Opnd { scalar: r.0, rows: r.1, cols: r.2, data: (0..r.1 * r.2).map(|i| small(ek, i)).collect() };
          out.push(Case { op, class: if l.0 && r.0 { Class::Scalar } else { Class::Compat }, lhs, rhs: Some(rhs) });
        }
      }
    }
  }
  // identity / absorbing elements, enumerated: for every numeric kind and arithmetic operator, every form pair, the operand patterns
  // (all 0 | all 1 | all 2) x ([0 1 2 …] | [2 1 0 …]) — the inputs on which a value-dependent shortcut (x ^ 0, 0 ^ x, x * 0, x / 1, x % 1)
  // differs from the elementwise definition. Random pools put 0 into both operands of one case only a few times per run.
  let special = |ek: EK, v: i64| -> Option<Sc> {
    match ek {
      EK::N(k) if k.is_int() => Some(k.int_sc(&BigInt::from(v))),
      EK::N(K::F64) => Some(f64b(v as f64)), EK::N(K::F32) => Some(f32b(v as f32)), EK::N(K::R64) => Some(Sc::R(v, 1)), EK::N(_) => Some(Sc::C((v as f64).to_bits(), 0f64.to_bits())),
      _ => None,
    }
  };
  for ek in all_ek() {
    if special(ek, 0).is_none() { continue; }
    for op in ARITH {
      for (l, r) in forms.iter() {
        for lv in [0i64, 1, 2] {
          for rev in [false, true] {
            let n = r.1 * r.2;
            let lhs = Opnd { scalar: l.0, rows: l.1, cols: l.2, data: (0..l.1 * l.2).map(|_| special(ek, lv).unwrap()).collect() };
            let rhs = Opnd { scalar: r.0, rows: r.1, cols: r.2, data: (0..n).map(|i| special(ek, (if rev { n - 1 - i } else { i } % 3) as i64).unwrap()).collect() };
            out.push(Case { op, class: if l.0 && r.0 { Class::Scalar } else { Class::Compat }, lhs: lhs.clone(), rhs: Some(rhs.clone()) });
            // and mirrored: the pattern on the left, the constant on the right
            if l != r { out.push(Case { op, class: Class::Compat, lhs: Opnd { scalar: r.0, rows: r.1, cols: r.2, data: rhs.data.clone() }, rhs: Some(Opnd { scalar: l.0, rows: l.1, cols: l.2, data: lhs.data.clone() }) }); }
          }
        }
      }
    }
  }
  out
}

// ------------------------------------------------------------------------------------------
// oracle

/// Scalar evaluations of one case share one interpreter session (fresh names per evaluation), which
/// avoids rebuilding the stdlib tables for every element.
pub struct ScalarLab { sess: Session, n: usize, cache: HashMap<(Op, Sc, Option<Sc>), Result<Outcome, String>> }
impl ScalarLab {
  pub fn new() -> ScalarLab { ScalarLab { sess: Session::new(), n: 0, cache: HashMap::new() } }
  pub fn eval(&mut self, op: Op, a: &Sc, b: Option<&Sc>) -> Result<Outcome, String> {
    let key = (op, a.clone(), b.cloned());
    if let Some(r) = self.cache.get(&key) { return r.clone(); }
    self.n += 1;
    let (x, y) = (format!("x{}", self.n), format!("y{}", self.n));
    let r = (|| {
      install_operand(&mut self.sess, &x, &Opnd::scalar(a.clone()), false)?;
      if let Some(b) = b { install_operand(&mut self.sess, &y, &Opnd::scalar(b.clone()), false)?; }
      Ok(self.sess.run(&op.render(&x, b.map(|_| y.as_str()))))
    })();
    self.cache.insert(key, r.clone());
    r
  }
}

fn is_unhandled(o: &Outcome) -> bool { matches!(o, Outcome::Err(k) if k.starts_with("UnhandledFunctionArgumentKind") || k.starts_with("Unhandled") || k.contains("NotImplemented") || k.contains("Unsupported")) }

fn check(c: &Case) -> Verdict {
  let mut v = Verdict::new();
  let ek = c.lhs.kind();
  let opn = c.op.name();
  v.label(format!("op:{}", opn));
  v.label(format!("kind:{}", ek));
  v.label(format!("class:{:?}", c.class));
  let forms = format!("{}{}", c.lhs.form(), c.rhs.as_ref().map(|r| r.form()).unwrap_or(""));
  v.label(format!("forms:{}:{}", if c.op.unary() { "unary" } else if c.op.is_cmp() { "cmp" } else if c.op.is_logic() { "logic" } else { "arith" }, forms));

  let mut sess = Session::new();
  if let Err(m) = install_operand(&mut sess, "a", &c.lhs, false) { v.harness(m); return v; }
  if let Some(r) = &c.rhs { if let Err(m) = install_operand(&mut sess, "b", r, false) { v.harness(m); return v; } }
  let src = c.op.render("a", c.rhs.as_ref().map(|_| "b"));
  let raw = sess.run_value(&src);
  let out = match &raw { Ok(val) => Outcome::Ok(from_value(val)), Err(o) => o.clone() };
  if let Outcome::NotCode = out { v.harness(format!("`{}` parsed as prose", src)); return v; }
  if let Outcome::Panic(m) = &out { v.fail(format!("C01|panic-escaped|{}|{}", opn, ek), format!("panic escaped interpret: {}", m)); return v; }
  if let Some(n) = sess.last_step_name() { if out.is_ok() { v.label(format!("arm:{}", n)); } }
  let nontrivial = !c.lhs.scalar || c.rhs.as_ref().map(|r| !r.scalar).unwrap_or(false) || c.class == Class::Scalar;
  if nontrivial { v.key = Some(format!("{}|{}|{}|{:?}|{}", opn, ek, forms, c.class, out.class())); }
  // operands must not be modified by evaluating the expression
  let snap = sess.snapshot();
  if snap.get("a") != Some(&c.lhs.rval()) { v.fail(format!("C01|operand-modified|{}|{}|{}", opn, ek, forms), format!("lhs changed to {}", snap.get("a").map(|x| x.show()).unwrap_or_default())); return v; }
  if let Some(r) = &c.rhs { if snap.get("b") != Some(&r.rval()) { v.fail(format!("C01|operand-modified|{}|{}|{}", opn, ek, forms), format!("rhs changed to {}", snap.get("b").map(|x| x.show()).unwrap_or_default())); return v; } }

  let mut lab = ScalarLab::new();
  match c.class {
    Class::Incompat => {
      // clause (c): rejected with an error rather than a value. Only judged when the operator accepts this kind at all.
      let r = c.rhs.as_ref().unwrap();
      let s0 = match lab.eval(c.op, &c.lhs.data[0], Some(&r.data[0])) { Ok(o) => o, Err(m) => { v.harness(m); return v; } };
      if is_unhandled(&s0) { v.label("op-not-defined-for-kind"); v.discard("operator does not accept this kind"); return v; }
      if let Outcome::Ok(val) = &out {
        v.fail(format!("C01|shape-mismatch-accepted|{}|{}x{}", family(c.op), c.lhs.form(), r.form()),
          format!("{}x{} {} {}x{} evaluated to {} instead of an error", c.lhs.rows, c.lhs.cols, c.op.sym(), r.rows, r.cols, val.show()));
      }
      v
    }
    Class::Scalar | Class::Compat => {
      // broadcast expansion
      let (rows, cols, scalar_result) = match &c.rhs {
        None => (c.lhs.rows, c.lhs.cols, c.lhs.scalar),
        Some(r) => {
          if c.lhs.scalar && r.scalar { (1, 1, true) }
          else if c.lhs.scalar { (r.rows, r.cols, false) }
          else if r.scalar { (c.lhs.rows, c.lhs.cols, false) }
          else { (c.lhs.rows.max(r.rows), c.lhs.cols.max(r.cols), false) }
        }
      };
      let pickel = |o: &Opnd, i: usize, j: usize| -> Sc {
        if o.scalar { o.data[0].clone() } else { o.at(if o.rows == 1 { 0 } else { i }, if o.cols == 1 { 0 } else { j }).clone() }
      };
      let mut want: Vec<RVal> = Vec::with_capacity(rows * cols);
      let mut any_scalar_err = false;
      let mut unhandled_scalar = false;
      for j in 0..cols {
        for i in 0..rows {
          let a = pickel(&c.lhs, i, j);
          let b = c.rhs.as_ref().map(|r| pickel(r, i, j));
          let so = match lab.eval(c.op, &a, b.as_ref()) { Ok(o) => o, Err(m) => { v.harness(m); return v; } };
          match &so {
            Outcome::Ok(val) => {
              // clause (d) on every scalar evaluation
              let e = model(c.op, &a, b.as_ref());
              if let Expect::Unconstrained(why) = &e { v.label(format!("unconstrained:{}", why)); }
              if let Err(m) = meets(&e, val) {
                v.fail(format!("C01|scalar-arith|{}|{}", opn, ek), format!("{} {} {}: {}", a.show(), c.op.sym(), b.as_ref().map(|b| b.show()).unwrap_or_default(), m));
                return v;
              }
              want.push(val.clone());
            }
            Outcome::NotCode => { v.harness("scalar expression parsed as prose"); return v; }
            Outcome::Panic(m) => { v.fail(format!("C01|panic-escaped|{}|{}", opn, ek), m.clone()); return v; }
            other => {
              if is_unhandled(other) { unhandled_scalar = true; }
              // a representable exact result that is rejected is a scalar-clause failure
              if !is_unhandled(other) {
                if let e @ (Expect::Exactly(_) | Expect::OneOf(_) | Expect::ApproxF64(_) | Expect::ApproxF32(_)) = model(c.op, &a, b.as_ref()) {
                  let _ = e;
                  // the one signed-integer corner where the hardware remainder overflows although the mathematical result (0) is representable
                  let min_by_minus_one = opn == "mod" && matches!((&a, b.as_ref()), (Sc::I(bits, x), Some(Sc::I(_, -1))) if *x == -(1i128 << (*bits as u32 - 1)));
                  v.fail(if min_by_minus_one { format!("C01|scalar-rejected|mod|min-by-minus-one|{}", ek) } else { format!("C01|scalar-rejected|{}|{}", opn, ek) }, format!("{} {} {} has a representable result but gave {}", a.show(), c.op.sym(), b.as_ref().map(|b| b.show()).unwrap_or_default(), other.show()));
                  return v;
                }
              }
              any_scalar_err = true;
            }
          }
        }
      }
      if unhandled_scalar {
        v.label("op-not-defined-for-kind");
        // operator does not accept scalars of this kind: only demand that a matrix result, if any, is not judged
        return v;
      }
      if any_scalar_err { v.label("scalar-error"); return v; }
      if scalar_result {
        // the case *is* the scalar evaluation (possibly with literal vs variable operands); compare for consistency
        match &out { Outcome::Ok(val) if *val == want[0] => {}, other => v.fail(format!("C01|scalar-inconsistent|{}|{}", opn, ek), format!("same scalar expression gave {} and {}", other.show(), want[0].show())) }
        return v;
      }
      // clause (b): scalars accepted ⇒ this matrix form accepted
      match &out {
        Outcome::Ok(val) => {
          let kind = want[0].kind();
          let expect = RVal::Mat { kind: kind.clone(), rows, cols, data: want };
          if *val != expect {
            let what = match val { RVal::Mat { rows: r2, cols: c2, kind: k2, .. } => if (*r2, *c2) != (rows, cols) { "shape" } else if *k2 != kind { "kind" } else { "element" }, _ => "not-a-matrix" };
            v.fail(format!("C01|broadcast-{}|{}|{}|{}", what, family(c.op), forms, ek), format!("`{}` gave {} but the per-element scalar results are {}", src, val.show(), expect.show()));
          }
        }
        other => {
          v.fail(format!("C01|missing-arm|{}|{}|{}", opn, forms, ek), format!("scalars of kind {} are accepted by `{}` but `{}` with forms {} was rejected: {}", ek, c.op.sym(), src, forms, other.show()));
        }
      }
      v
    }
  }
}

fn family(op: Op) -> String {
  match op {
    Op::Add | Op::Sub | Op::Mul | Op::Div => "nalgebra-arith".into(),
    Op::Mod => "mod".into(), Op::Pow => "pow".into(),
    o if o.is_cmp() => "compare".into(),
    o if o.is_logic() => "logic".into(),
    o => o.name(),
  }
}
