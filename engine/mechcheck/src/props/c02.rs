//! C02 Formulas evaluate according to the documented precedence and left associativity.

use crate::engine::*;
use crate::gen::*;
use crate::mech::*;
use crate::rval::*;
use proptest::prelude::*;
use serde::{Deserialize, Serialize};

pub struct C02;

#[derive(Clone, Copy, Debug, PartialEq, Eq, Hash, Serialize, Deserialize)]
pub enum B { Add, Sub, Mul, Div, Mod, Pow, MatMul, Eq, Ne, Lt, Le, Gt, Ge, And, Or, Xor }
impl B {
  fn sym(&self) -> &'static str { match self { B::Add => "+", B::Sub => "-", B::Mul => "*", B::Div => "/", B::Mod => "%", B::Pow => "^", B::MatMul => "**", B::Eq => "==", B::Ne => "!=", B::Lt => "<", B::Le => "<=", B::Gt => ">", B::Ge => ">=", B::And => "&&", B::Or => "||", B::Xor => "⊕" } }
  /// precedence level of the specification (higher binds tighter); everything is left associative
  fn level(&self) -> u8 { match self { B::Pow => 4, B::Mul | B::Div | B::Mod | B::MatMul => 3, B::Add | B::Sub => 2, B::Eq | B::Ne | B::Lt | B::Le | B::Gt | B::Ge => 1, B::And | B::Or | B::Xor => 0 } }
}
const ARITH: [B; 6] = [B::Add, B::Sub, B::Mul, B::Div, B::Mod, B::Pow];
const CMPS: [B; 6] = [B::Eq, B::Ne, B::Lt, B::Le, B::Gt, B::Ge];
const LOGIC: [B; 3] = [B::And, B::Or, B::Xor];

/// an operand: variable index into the pool, optional unary prefix (- or !), optional transpose
#[derive(Clone, Debug, PartialEq, Eq, Hash, Serialize, Deserialize)]
pub struct Opd { pub var: u8, pub neg: bool, pub tr: bool }

#[derive(Clone, Copy, Debug, PartialEq, Eq, Hash, Serialize, Deserialize)]
pub enum Domain { Num, Bool, Mat }

#[derive(Clone, Debug, Serialize, Deserialize)]
pub struct Case {
  pub domain: Domain,
  pub operands: Vec<Opd>,
  pub ops: Vec<B>,
  /// explicit parentheses around operand ranges [i, j] (inclusive, i<j), properly nested or disjoint
  pub parens: Vec<(u8, u8)>,
}

const NUMS: [&str; 8] = ["2.0", "3.0", "5.0", "7.0", "4.0", "0.5", "1.5", "9.0"];
const BOOLS: [&str; 4] = ["true", "false", "true", "false"];
const MATS: [&str; 4] = ["[1.0 2.0; 3.0 4.0]", "[0.0 1.0; 1.0 0.0]", "[1.0 1.0; 0.0 1.0]", "[2.0 0.0; 1.0 3.0]"];

fn opd_s(domain: Domain) -> BoxedStrategy<Opd> {
  match domain {
    Domain::Num => (0u8..8, proptest::bool::weighted(0.2)).prop_map(|(var, neg)| Opd { var, neg, tr: false }).boxed(),
    Domain::Bool => (0u8..4, proptest::bool::weighted(0.25)).prop_map(|(var, neg)| Opd { var, neg, tr: false }).boxed(),
    Domain::Mat => (0u8..4, proptest::bool::weighted(0.15), proptest::bool::weighted(0.3)).prop_map(|(var, neg, tr)| Opd { var, neg, tr }).boxed(),
  }
}

/// kind-correct operator sequences built level by level
fn ops_s(domain: Domain, n: usize) -> BoxedStrategy<Vec<B>> {
  match domain {
    Domain::Num => proptest::collection::vec(pick(ARITH.to_vec()), n).boxed(),
    Domain::Mat => proptest::collection::vec(pick(vec![B::Add, B::Sub, B::Mul, B::MatMul, B::MatMul, B::Div]), n).boxed(),
    Domain::Bool => {
      // logic chain over comparison terms over arithmetic chains: choose for every gap whether it is logic / cmp / arith so that
      // no comparison term holds two comparisons and every logic operand is a bool
      proptest::collection::vec((0u8..10, pick(ARITH.to_vec()), pick(CMPS.to_vec()), pick(LOGIC.to_vec())), n).prop_map(|v| {
        let mut out = vec![];
        let mut cmp_in_term = false;
        for (sel, a, c, l) in v {
          if sel < 3 { out.push(l); cmp_in_term = false; }
          else if sel < 6 && !cmp_in_term { out.push(c); cmp_in_term = true; }
          else { out.push(a); }
        }
        out
      }).boxed()
    }
  }
}

fn parens_s(n_operands: usize) -> BoxedStrategy<Vec<(u8, u8)>> {
  if n_operands < 3 { return Just(vec![]).boxed(); }
  let n = n_operands as u8;
  // constructed (never filtered): a range [i, j] with i < j that is not the whole formula
  let one = (0..n - 1, 1u8..n).prop_map(move |(i, len)| { let j = (i + len).min(n - 1); let (i, j) = if i == 0 && j == n - 1 { (1, j) } else { (i, j) }; if i < j { vec![(i, j)] } else { vec![(0, 1)] } }).boxed();
  if n < 4 { return prop_oneof![5 => Just(vec![]), 4 => one].boxed(); }
  let nested = (0..n - 2).prop_map(move |i| { let j = (i + 2).min(n - 1); let (i, j) = if i == 0 && j == n - 1 { (1, j) } else { (i, j) }; if j - i >= 2 { vec![(i, j), (i, j - 1)] } else { vec![(i, j)] } }).boxed();
  prop_oneof![5 => Just(vec![]), 4 => one, 1 => nested].boxed()
}

impl Prop for C02 {
  type Case = Case;
  const ID: &'static str = "C02";
  fn budget(t: Tier) -> u32 { t.pick(6_000, 80_000) }
  fn strategy(_t: Tier, _k: &Known) -> BoxedStrategy<Case> {
    (prop_oneof![4 => Just(Domain::Num), 4 => Just(Domain::Bool), 3 => Just(Domain::Mat)], 2usize..=8).prop_flat_map(|(domain, n)| {
      let n = if domain == Domain::Mat { n.min(5) } else { n };
      (proptest::collection::vec(opd_s(domain), n), ops_s(domain, n - 1), parens_s(n)).prop_map(move |(mut operands, ops, parens)| {
        if domain == Domain::Bool {
          // operand kinds follow from the neighbouring operators: logic operands (no arithmetic/comparison next to them) are booleans
          for i in 0..operands.len() {
            let left = if i > 0 { Some(ops[i - 1]) } else { None };
            let right = ops.get(i).copied();
            let numeric = left.map(|o| o.level() >= 1).unwrap_or(false) || right.map(|o| o.level() >= 1).unwrap_or(false);
            operands[i].tr = numeric; // reuse `tr` as "numeric operand" marker in the Bool domain
          }
        }
        Case { domain, operands, ops, parens }
      })
    }).boxed()
  }
  fn fixed_cases(t: Tier) -> Vec<Case> {
    // every operator sequence of length ≤ 3 (quick) / ≤ 4 (thorough) over the arithmetic operators and over the matrix operators,
    // with operands whose regroupings give different values
    let mut out = vec![];
    let maxlen = t.pick(3, 4);
    for len in 1..=maxlen {
      let total = 6usize.pow(len as u32);
      for code in 0..total {
        let mut c = code; let mut ops = vec![];
        for _ in 0..len { ops.push(ARITH[c % 6]); c /= 6; }
        let operands: Vec<Opd> = (0..=len).map(|i| Opd { var: [3u8, 0, 1, 5, 6][i % 5], neg: false, tr: false }).collect();
        out.push(Case { domain: Domain::Num, operands, ops, parens: vec![] });
      }
      let mops = [B::Add, B::Sub, B::Mul, B::MatMul, B::Div];
      let totalm = 5usize.pow(len as u32);
      for code in 0..totalm {
        let mut c = code; let mut ops = vec![];
        for _ in 0..len { ops.push(mops[c % 5]); c /= 5; }
        if !ops.contains(&B::MatMul) { continue; }
        let operands: Vec<Opd> = (0..=len).map(|i| Opd { var: [0u8, 2, 3, 1, 0][i % 5], neg: false, tr: false }).collect();
        out.push(Case { domain: Domain::Mat, operands, ops, parens: vec![] });
      }
    }
    out
  }
  fn exhaustive_note(t: Tier) -> Option<String> { Some(format!("exhaustive over all sequences of up to {} operators from {{+ - * / % ^}} on numbers and from {{+ - * ** /}} (containing **) on matrices, one operand draw each; longer chains, comparison/logic layering, unary operators, transpose and explicit parentheses are sampled", t.pick(3, 4))) }
  fn rule() -> &'static str {
    "case = a flat formula over pre-defined variables: 2-8 operands (with optional unary -/!, transpose on matrices), kind-correct operator \
     sequence (arithmetic → comparison → logic layering built by construction; matrix chains with ** and elementwise operators), optional \
     explicit parentheses. Oracle (metamorphic): the same formula evaluated node by node in the grouping the specification's table \
     prescribes (one `t := l op r` statement per internal node, no nesting) must give the identical value or also fail. Non-trivial = \
     some other grouping of the same tokens evaluates differently (checked by evaluating the right-nested grouping); distinct key = \
     (domain, operator sequence, parenthesis shape)."
  }
  fn assumptions() -> Vec<String> { vec!["where both evaluations fail the error kinds are not compared".into(), "set and table operators are outside the statement's list and not generated".into()] }
  fn describe(c: &Case) -> String { format!("{} ⇒ {}", setup(c).join("; "), flat(c)) }
  fn check(c: &Case, _cx: &Cx) -> Verdict { check(c) }
}

fn var_name(c: &Case, o: &Opd) -> String {
  match c.domain { Domain::Num => format!("n{}", o.var % 8), Domain::Mat => format!("m{}", o.var % 4), Domain::Bool => if o.tr { format!("n{}", o.var % 8) } else { format!("p{}", o.var % 4) } }
}
fn opd_text(c: &Case, o: &Opd) -> String {
  let v = var_name(c, o);
  match c.domain {
    Domain::Num => if o.neg { format!("-{}", v) } else { v },
    Domain::Mat => format!("{}{}{}", if o.neg { "-" } else { "" }, v, if o.tr { "'" } else { "" }),
    Domain::Bool => if o.tr { if o.neg { format!("-{}", v) } else { v } } else if o.neg { format!("!{}", v) } else { v },
  }
}

fn setup(c: &Case) -> Vec<String> {
  let mut st = vec![];
  match c.domain {
    Domain::Num => for (i, v) in NUMS.iter().enumerate() { st.push(format!("n{} := {}", i, v)); },
    Domain::Mat => for (i, v) in MATS.iter().enumerate() { st.push(format!("m{} := {}", i, v)); },
    Domain::Bool => { for (i, v) in NUMS.iter().enumerate() { st.push(format!("n{} := {}", i, v)); } for (i, v) in BOOLS.iter().enumerate() { st.push(format!("p{} := {}", i, v)); } }
  }
  st
}

fn flat(c: &Case) -> String {
  let mut s = String::new();
  for (i, o) in c.operands.iter().enumerate() {
    if i > 0 { s.push_str(&format!(" {} ", c.ops[i - 1].sym())); }
    for (a, _) in &c.parens { if *a as usize == i { s.push('('); } }
    s.push_str(&opd_text(c, o));
    for (_, b) in &c.parens { if *b as usize == i { s.push(')'); } }
  }
  s
}

#[derive(Clone, Debug)]
enum Tree { Leaf(usize), Node(Box<Tree>, B, Box<Tree>) }

/// grouping prescribed by the specification for operands lo..=hi (explicit parentheses first)
fn group(c: &Case, lo: usize, hi: usize, right_assoc: bool) -> Tree {
  // collapse top-level parenthesised ranges inside [lo,hi] into atoms
  let mut atoms: Vec<Tree> = vec![];
  let mut ops: Vec<B> = vec![];
  let mut i = lo;
  while i <= hi {
    // widest paren starting at i that lies strictly inside (lo,hi) range or equals a sub-range
    let p = c.parens.iter().filter(|(a, b)| *a as usize == i && (*b as usize) <= hi && !(*a as usize == lo && *b as usize == hi)).max_by_key(|(_, b)| *b);
    match p {
      Some((a, b)) => { atoms.push(group_inner(c, *a as usize, *b as usize, right_assoc)); i = *b as usize + 1; }
      None => { atoms.push(Tree::Leaf(i)); i += 1; }
    }
    if i <= hi { ops.push(c.ops[i - 1]); }
  }
  climb(atoms, ops, right_assoc)
}
/// contents of a parenthesised range: same rule, ignoring the paren that delimits exactly this range
fn group_inner(c: &Case, lo: usize, hi: usize, right_assoc: bool) -> Tree {
  let mut atoms: Vec<Tree> = vec![]; let mut ops: Vec<B> = vec![];
  let mut i = lo;
  while i <= hi {
    let p = c.parens.iter().filter(|(a, b)| *a as usize == i && (*b as usize) <= hi && !(*a as usize == lo && *b as usize == hi)).max_by_key(|(_, b)| *b);
    match p { Some((a, b)) => { atoms.push(group_inner(c, *a as usize, *b as usize, right_assoc)); i = *b as usize + 1; } None => { atoms.push(Tree::Leaf(i)); i += 1; } }
    if i <= hi { ops.push(c.ops[i - 1]); }
  }
  climb(atoms, ops, right_assoc)
}

fn climb(atoms: Vec<Tree>, ops: Vec<B>, right_assoc: bool) -> Tree {
  // reduce by precedence level from tightest to loosest; left to right within a level (or right to left for the alternative grouping)
  let mut atoms = atoms; let mut ops = ops;
  for level in (0..=4u8).rev() {
    if right_assoc {
      let mut k = ops.len();
      while k > 0 { k -= 1; if ops[k].level() == level { let r = atoms.remove(k + 1); let l = atoms.remove(k); let op = ops.remove(k); atoms.insert(k, Tree::Node(Box::new(l), op, Box::new(r))); } }
    } else {
      let mut k = 0;
      while k < ops.len() { if ops[k].level() == level { let l = atoms.remove(k); let r = atoms.remove(k); let op = ops.remove(k); atoms.insert(k, Tree::Node(Box::new(l), op, Box::new(r))); } else { k += 1; } }
    }
  }
  atoms.pop().unwrap()
}

/// let-form: statements evaluating the tree node by node; returns the name/text holding the root
fn let_form(c: &Case, t: &Tree, out: &mut Vec<String>, prefix: &str) -> String {
  match t {
    Tree::Leaf(i) => opd_text(c, &c.operands[*i]),
    Tree::Node(l, op, r) => {
      let lt = let_form(c, l, out, prefix);
      let rt = let_form(c, r, out, prefix);
      let name = format!("{}{}", prefix, out.len());
      out.push(format!("{} := {} {} {}", name, lt, op.sym(), rt));
      name
    }
  }
}

fn run_all(stmts: &[String]) -> (Outcome, Option<String>) {
  let mut sess = Session::new();
  let mut last = Outcome::Ok(RVal::S(Sc::Empty));
  for s in stmts {
    last = sess.run(s);
    if !last.is_ok() { return (last, Some(s.clone())); }
  }
  (last, None)
}

fn check(c: &Case) -> Verdict {
  let mut v = Verdict::new();
  let pre = setup(c);
  let formula = flat(c);
  let n = c.operands.len();
  // (1) flat formula
  let mut s1 = pre.clone(); s1.push(format!("res := {}", formula));
  let (o1, _) = run_all(&s1);
  if let Outcome::NotCode | Outcome::ParseErr(_) = o1 { v.harness(format!("`{}` did not parse as code: {}", formula, o1.show())); return v; }
  if let Outcome::Panic(m) = &o1 { v.fail("C02|panic-escaped", m.clone()); return v; }
  // (2) specified grouping, node by node
  let tree = group(c, 0, n - 1, false);
  let mut s2 = pre.clone(); let mut nodes = vec![];
  let root = let_form(c, &tree, &mut nodes, "t");
  s2.extend(nodes.clone());
  s2.push(format!("res := {}", root));
  let (o2, _) = run_all(&s2);
  if let Outcome::NotCode | Outcome::ParseErr(_) = o2 { v.harness(format!("let-form did not parse: {:?}", nodes)); return v; }
  // (3) an alternative grouping to measure whether the case discriminates
  let alt = group(c, 0, n - 1, true);
  let mut s3 = pre.clone(); let mut nodes3 = vec![];
  let root3 = let_form(c, &alt, &mut nodes3, "u");
  s3.extend(nodes3); s3.push(format!("res := {}", root3));
  let (o3, _) = run_all(&s3);
  let same = |a: &Outcome, b: &Outcome| match (a, b) { (Outcome::Ok(x), Outcome::Ok(y)) => x == y, (Outcome::Ok(_), _) | (_, Outcome::Ok(_)) => false, _ => true };
  let discriminates = !same(&o2, &o3);
  let opseq: String = c.ops.iter().map(|o| o.sym()).collect::<Vec<_>>().join(" ");
  v.label(format!("domain:{:?}", c.domain));
  v.label(format!("len:{}", c.ops.len()));
  if !c.parens.is_empty() { v.label("explicit-parens"); }
  if discriminates { v.label("discriminating"); v.key = Some(format!("{:?}|{}|{:?}", c.domain, opseq, c.parens)); }
  if !same(&o1, &o2) {
    let lv: Vec<u8> = c.ops.iter().map(|o| o.level()).collect();
    let mut pair: Vec<String> = vec![];
    for w in c.ops.windows(2) { if w[0].level() != w[1].level() || w[0].level() == 4 { pair.push(format!("{}{}", w[0].sym(), w[1].sym())); } }
    let _ = lv;
    v.fail(format!("C02|grouping|{:?}|{}{}", c.domain, pair.first().cloned().unwrap_or_else(|| opseq.clone()), if c.parens.is_empty() { "" } else { "|parens" }),
      format!("`{}` evaluated to {} but the specified grouping ({}) gives {}", formula, o1.show(), nodes.join("; "), o2.show()));
  }
  v
}
