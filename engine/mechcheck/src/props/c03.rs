//! C03 Indexing reads exactly the addressed elements (1-based, column-major).

use crate::engine::*;
use crate::gen::*;
use crate::kinds::*;
use crate::mech::*;
use crate::rval::*;
use num_bigint::BigInt;
use proptest::prelude::*;
use serde::{Deserialize, Serialize};

pub struct C03;

#[derive(Clone, Debug, PartialEq, Eq, Hash, Serialize, Deserialize)]
pub enum Ix {
  /// scalar index; kind None = plain f64 literal, Some(k) = variable of integer kind k
  Scalar(i64, Option<K>),
  /// index vector literal (row or column), repeats allowed
  Vec { vals: Vec<i64>, col: bool },
  Range { a: i64, b: i64, inclusive: bool },
  All,
  /// literal mask (inline or via variable)
  Mask { flags: Vec<bool>, var: bool },
}

impl Ix {
  pub fn form(&self) -> &'static str {
    match self { Ix::Scalar(_, None) => "S", Ix::Scalar(_, Some(_)) => "Sk", Ix::Vec { .. } => "V", Ix::Range { .. } => "R", Ix::All => "A", Ix::Mask { .. } => "B" }
  }
}

#[derive(Clone, Debug, Serialize, Deserialize)]
pub struct Case {
  pub ek: EK,
  pub rows: usize,
  pub cols: usize,
  pub i: Ix,
  pub j: Option<Ix>,
  /// enumerated wrong-length-mask stratum: the acceptance table of the pinned tree applies strictly (it was learned from exactly these cases)
  #[serde(default)]
  pub strict: bool,
}

/// distinct, kind-typed elements so that a misplaced element is visible
pub fn distinct_elems(ek: EK, n: usize) -> Vec<Sc> {
  (0..n).map(|i| match ek {
    EK::N(k) if k.is_int() => k.int_sc(&BigInt::from(i as i64 + 1)),
    EK::N(K::F64) => f64b(i as f64 + 1.5),
    EK::N(K::F32) => f32b(i as f32 + 1.5),
    EK::N(K::R64) => { let r = num_rational::Rational64::new(i as i64 + 1, 7); Sc::R(*r.numer(), *r.denom()) }
    EK::N(_) => Sc::C((i as f64 + 1.0).to_bits(), 2f64.to_bits()),
    EK::Bool => Sc::Bool((i * i + i / 2) % 3 != 1),
    EK::Str => Sc::Str(format!("s{}", i)),
  }).collect()
}

/// positions an index selects along a dimension of length `len`; Err(()) = addresses no element
/// (out of range / mask length mismatch); Ok(None) = unbuildable or empty selection (not judged)
pub fn positions(ix: &Ix, len: usize) -> Result<Option<Vec<usize>>, ()> {
  let chk = |v: i64| -> Result<usize, ()> { if v >= 1 && (v as usize) <= len { Ok(v as usize) } else { Err(()) } };
  match ix {
    Ix::Scalar(v, _) => Ok(Some(vec![chk(*v)?])),
    Ix::Vec { vals, .. } => { let mut o = vec![]; for v in vals { o.push(chk(*v)?); } Ok(Some(o)) }
    Ix::Range { a, b, inclusive } => {
      let end = if *inclusive { *b } else { *b - 1 };
      if end < *a { return Ok(None); }
      let mut o = vec![]; for v in *a..=end { o.push(chk(v)?); } Ok(Some(o))
    }
    Ix::All => Ok(Some((1..=len).collect())),
    Ix::Mask { flags, .. } => {
      if flags.len() != len { return Err(()); }
      let o: Vec<usize> = flags.iter().enumerate().filter(|(_, f)| **f).map(|(i, _)| i + 1).collect();
      if o.is_empty() { Ok(None) } else { Ok(Some(o)) }
    }
  }
}

pub fn render_ix(ix: &Ix, name: &str, pre: &mut Vec<String>) -> String {
  match ix {
    Ix::Scalar(v, None) => format!("{}", v),
    Ix::Scalar(v, Some(k)) => { pre.push(format!("{}<{}> := {}", name, k.name(), v)); name.to_string() }
    Ix::Vec { vals, col } => {
      let lit = format!("[{}]", vals.iter().map(|v| v.to_string()).collect::<Vec<_>>().join(if *col { "; " } else { " " }));
      // a third of the index vectors (decided by their contents, so that a case stays a pure function of its data) are bound to a
      // variable first: a subscript that is a variable reference takes its own dispatch arm
      if vals.len() >= 2 && vals.iter().sum::<i64>() % 3 == 0 { pre.push(format!("{}v := {}", name, lit)); format!("{}v", name) } else { lit }
    }
    Ix::Range { a, b, inclusive } => format!("{}{}{}", a, if *inclusive { "..=" } else { ".." }, b),
    Ix::All => ":".to_string(),
    Ix::Mask { flags, var } => {
      let lit = format!("[{}]", flags.iter().map(|f| f.to_string()).collect::<Vec<_>>().join(" "));
      if *var { pre.push(format!("{} := {}", name, lit)); name.to_string() } else { lit }
    }
  }
}

/// index strategy for a dimension of length `len`; `oob` = produce an index that addresses no element
pub fn ix_strategy(len: usize, oob: bool, allow_all: bool) -> BoxedStrategy<Ix> {
  let l = len as i64;
  let ikinds = vec![None, None, Some(K::U8), Some(K::U64), Some(K::I32), Some(K::U16), Some(K::I64), Some(K::U32), Some(K::U128), Some(K::I8)];
  if !oob {
    let mut v: Vec<BoxedStrategy<Ix>> = vec![
      (1..=l, pick(ikinds)).prop_map(|(v, k)| Ix::Scalar(v, k)).boxed(),
      (proptest::collection::vec(1..=l, 1..=5), any::<bool>()).prop_map(|(vals, col)| Ix::Vec { vals, col }).boxed(),
      (1..=l, 0..l, any::<bool>()).prop_map(move |(a, d, inclusive)| { let b0 = (a + d).min(l); let b = if inclusive { b0 } else { b0 + 1 }; Ix::Range { a, b, inclusive } }).boxed(),
      (proptest::collection::vec(any::<bool>(), len), any::<bool>()).prop_map(|(mut flags, var)| { if !flags.iter().any(|f| *f) { flags[0] = true; } Ix::Mask { flags, var } }).boxed(),
    ];
    if allow_all { v.push(Just(Ix::All).boxed()); }
    proptest::strategy::Union::new(v).boxed()
  } else {
    prop_oneof![
      prop_oneof![Just(0i64), Just(l + 1), Just(l + 2), Just(l * 2 + 1)].prop_map(|v| Ix::Scalar(v, None)),
      (prop_oneof![Just(l + 1), Just(l + 3)], pick(vec![Some(K::U8), Some(K::I64), Some(K::U64)])).prop_map(|(v, k)| Ix::Scalar(v, k)),
      (proptest::collection::vec(1..=l, 0..=3), prop_oneof![Just(0i64), Just(l + 1), Just(l + 2)], any::<bool>(), any::<bool>()).prop_map(|(mut vals, bad, col, front)| { if front { vals.insert(0, bad); } else { vals.push(bad); } Ix::Vec { vals, col } }),
      (1..=l, 1i64..=2).prop_map(move |(a, over)| Ix::Range { a, b: l + over, inclusive: true }),
      (0i64..=0, 1..=l).prop_map(|(a, b)| Ix::Range { a, b, inclusive: true }),
      (proptest::collection::vec(any::<bool>(), len + 1), any::<bool>()).prop_map(|(mut flags, var)| { flags[0] = true; Ix::Mask { flags, var } }),
      (proptest::collection::vec(any::<bool>(), len.max(2) - 1), any::<bool>()).prop_map(|(mut flags, var)| { flags[0] = true; Ix::Mask { flags, var } }),
    ].boxed()
  }
}

pub fn shape_strategy(maxd: usize) -> BoxedStrategy<(usize, usize)> {
  prop_oneof![
    1 => Just((1usize, 1usize)),
    3 => (2..=maxd).prop_map(|n| (1, n)),
    3 => (2..=maxd).prop_map(|n| (n, 1)),
    6 => (2..=maxd, 2..=maxd),
    1 => prop_oneof![Just((1usize, 17usize)), Just((17usize, 1usize)), Just((6usize, 7usize))],
  ].boxed()
}

impl Prop for C03 {
  type Case = Case;
  const ID: &'static str = "C03";
  fn budget(t: Tier) -> u32 { t.pick(8_000, 150_000) }
  fn strategy(t: Tier, _k: &Known) -> BoxedStrategy<Case> {
    let maxd = t.pick(4, 6);
    (pick(all_ek()), shape_strategy(maxd), any::<bool>(), 0u8..10).prop_flat_map(|(ek, (rows, cols), two, oobsel)| {
      if two {
        // two-position form; oobsel 0 → I out of range, 1 → J out of range, 2.. in range
        (ix_strategy(rows, oobsel == 0, true), ix_strategy(cols, oobsel == 1, true)).prop_map(move |(i, j)| Case { ek, rows, cols, i, j: Some(j), strict: false }).boxed()
      } else {
        ix_strategy(rows * cols, oobsel < 2, true).prop_map(move |i| Case { ek, rows, cols, i, j: None, strict: false }).boxed()
      }
    }).boxed()
  }
  fn rule() -> &'static str {
    "case = (element kind, shape incl. 1x1 / row / column / general / larger, index form(s) ∈ {scalar (f64 or integer-kind variable), \
     index vector with repeats, range, ':', bool mask (literal or variable)} in one or two positions, in-range or boundary out-of-range \
     values); oracle = 1-based column-major reference model. Non-trivial = not a plain scalar index on a vector; distinct key = \
     (storage form, kind, I form, J form, in/out of range, outcome class)."
  }
  fn assumptions() -> Vec<String> {
    vec![
      "orientation of a one-position vector/range/mask result is not fixed by the docs: only element sequence and length are compared".into(),
      "empty selections (all-false mask, empty range) are not judged".into(),
      "fractional and negative indices are outside the quantifier and not generated".into(),
    ]
  }
  fn describe(c: &Case) -> String { render(c).join("; ") }
  fn fixed_cases(_t: Tier) -> Vec<Case> { masklen_stratum() }
  fn check(c: &Case, _cx: &Cx) -> Verdict { check(c) }
}

fn matrix_of(c: &Case) -> Opnd { Opnd { scalar: false, rows: c.rows, cols: c.cols, data: distinct_elems(c.ek, c.rows * c.cols) } }

fn render(c: &Case) -> Vec<String> {
  let mut st = define_operand("x", &matrix_of(c), false);
  let mut pre = vec![];
  let i = render_ix(&c.i, "i", &mut pre);
  let expr = match &c.j { Some(j) => { let j = render_ix(j, "j", &mut pre); format!("x[{},{}]", i, j) } None => format!("x[{}]", i) };
  st.extend(pre);
  st.push(expr);
  st
}

fn check(c: &Case) -> Verdict {
  let mut v = Verdict::new();
  let x = matrix_of(c);
  let mut sess = Session::new();
  if let Err(m) = install_operand(&mut sess, "x", &x, false) { v.harness(m); return v; }
  let mut pre = vec![];
  let itxt = render_ix(&c.i, "i", &mut pre);
  let expr = match &c.j { Some(j) => { let j = render_ix(j, "j", &mut pre); format!("x[{},{}]", itxt, j) } None => format!("x[{}]", itxt) };
  for p in &pre { match sess.run(p) { Outcome::Ok(_) => {} o => { v.harness(format!("index setup `{}` gave {}", p, o.show())); return v; } } }
  let out = sess.run(&expr);
  if let Outcome::NotCode = out { v.harness(format!("`{}` parsed as prose", expr)); return v; }
  let storage = x.form();
  let forms = format!("{}{}", c.i.form(), c.j.as_ref().map(|j| j.form()).unwrap_or("-"));
  let kind = c.ek.name();
  v.label(format!("storage:{}", storage));
  v.label(format!("kind:{}", kind));
  v.label(format!("forms:{}", forms));
  if let Some(n) = sess.last_step_name() { if out.is_ok() { v.label(format!("arm:{}", n)); } }
  if let Outcome::Panic(m) = &out { v.fail(format!("C03|panic-escaped|{}|{}", storage, forms), m.clone()); return v; }

  // x must be unchanged whatever happened
  if sess.snapshot().get("x") != Some(&x.rval()) {
    v.fail(format!("C03|source-modified|{}|{}", storage, forms), format!("`{}` changed x to {}", expr, sess.snapshot().get("x").map(|r| r.show()).unwrap_or_default()));
    return v;
  }

  // reference model
  let (want, shape): (Result<Option<Vec<Sc>>, ()>, Option<(usize, usize)>) = match &c.j {
    None => {
      match positions(&c.i, c.rows * c.cols) {
        Err(()) => (Err(()), None),
        Ok(None) => (Ok(None), None),
        Ok(Some(p)) => {
          let sh = match &c.i { Ix::Scalar(..) => Some((0, 0)), Ix::All => Some((c.rows * c.cols, 1)), _ => None };
          (Ok(Some(p.iter().map(|k| x.data[k - 1].clone()).collect())), sh)
        }
      }
    }
    Some(j) => {
      match (positions(&c.i, c.rows), positions(j, c.cols)) {
        (Err(()), _) | (_, Err(())) => (Err(()), None),
        (Ok(None), _) | (_, Ok(None)) => (Ok(None), None),
        (Ok(Some(pi)), Ok(Some(pj))) => {
          let mut d = vec![];
          for cj in &pj { for ri in &pi { d.push(x.at(ri - 1, cj - 1).clone()); } }
          let sh = if matches!((&c.i, j), (Ix::Scalar(..), Ix::Scalar(..))) { (0, 0) } else { (pi.len(), pj.len()) };
          (Ok(Some(d)), Some(sh))
        }
      }
    }
  };
  let range_class = match &want { Err(()) => "oob", Ok(None) => "empty", Ok(Some(_)) => "in" };
  v.label(format!("range:{}", range_class));
  let trivial = c.j.is_none() && matches!(c.i, Ix::Scalar(_, None)) && (c.rows == 1 || c.cols == 1) && range_class == "in";
  if !trivial { v.key = Some(format!("{}|{}|{}|{}|{}", storage, kind, forms, range_class, out.class())); }

  match want {
    Err(()) => {
      if let Outcome::Ok(val) = &out {
        let cause = oob_cause(c);
        if cause == "mask-length-unchecked" {
          // the listed finding is tied to the places where the pinned tree accepts a mask of the wrong length: (storage, index forms, which
          // subscript's mask is too short / too long). A combination outside that table is a new acceptance and is reported.
          let mkey = format!("{}|{}|{}", storage, forms, mask_rel(c));
          if c.strict { v.label(format!("masklen-accepted:{}", mkey)); }
          if !c.strict || masklen_baseline().contains(&mkey) || std::env::var("VERIF_LEARN").is_ok() {
            v.fail(format!("C03|{}|{}|{}", cause, storage, forms), format!("`{}` on a {}x{} matrix addresses no element but evaluated to {}", expr, c.rows, c.cols, val.show()));
          } else {
            v.fail(format!("C03|mask-length-newly-accepted|{}", mkey), format!("`{}` on a {}x{} matrix: a mask of the wrong length is rejected here on the pinned tree but evaluated to {}", expr, c.rows, c.cols, val.show()));
          }
          return v;
        }
        v.fail(format!("C03|{}|{}|{}", cause, storage, forms), format!("`{}` on a {}x{} matrix addresses no element but evaluated to {}", expr, c.rows, c.cols, val.show()));
      }
    }
    Ok(None) => { /* not judged */ }
    Ok(Some(d)) => {
      match &out {
        Outcome::Ok(val) => {
          v.label(format!("supported:{}|{}|{}", forms, storage, kind));
          let got = val.elems();
          let want_r: Vec<RVal> = d.iter().map(|s| RVal::S(s.clone())).collect();
          if got != want_r {
            v.fail(format!("C03|wrong-elements|{}|{}", storage, forms), format!("`{}` on {} gave {} expected elements [{}]", expr, x.show(), val.show(), d.iter().map(|s| s.show()).collect::<Vec<_>>().join(" ")));
            return v;
          }
          match (shape, val) {
            (Some((0, 0)), RVal::S(_)) => {}
            (Some((0, 0)), other) => v.fail(format!("C03|wrong-shape|{}|{}", storage, forms), format!("scalar index gave non-scalar {}", other.show())),
            (Some((r, cc)), RVal::Mat { rows, cols, kind: k2, .. }) => {
              if (*rows, *cols) != (r, cc) { v.fail(format!("C03|wrong-shape|{}|{}", storage, forms), format!("`{}` gave {}x{} expected {}x{}", expr, rows, cols, r, cc)); }
              else if *k2 != kind { v.fail(format!("C03|wrong-kind|{}|{}", storage, forms), format!("result kind {} expected {}", k2, kind)); }
            }
            (Some((r, cc)), RVal::S(s)) => { if !(r == 1 && cc == 1) { v.fail(format!("C03|wrong-shape|{}|{}", storage, forms), format!("`{}` gave scalar {} expected {}x{}", expr, s.show(), r, cc)); } }
            (None, RVal::Mat { rows, cols, kind: k2, .. }) => {
              if *rows != 1 && *cols != 1 { v.fail(format!("C03|wrong-shape|{}|{}", storage, forms), format!("one-position index gave a {}x{} matrix", rows, cols)); }
              else if *k2 != kind { v.fail(format!("C03|wrong-kind|{}|{}", storage, forms), format!("result kind {} expected {}", k2, kind)); }
            }
            (None, RVal::S(_)) => {}
            (_, other) => v.fail(format!("C03|wrong-shape|{}|{}", storage, forms), format!("unexpected result {}", other.show())),
          }
        }
        other => {
          // in-range read rejected: an unsupported form (listed as known finding) or a regression
          let single = one_by_one_index(&c.i, c.rows * c.cols) || c.j.as_ref().map(|j| one_by_one_index(j, c.cols)).unwrap_or(false);
          let fkey = format!("{}|{}|{}", forms, storage, kind);
          if single {
            v.fail(format!("C03|single-element-index-rejected|{}|{}|{}", storage, forms, other.class()), format!("`{}` on a {}x{} {} matrix is in range but was rejected: {}", expr, c.rows, c.cols, kind, other.show()));
          } else if supported().contains(&fkey) {
            v.fail(format!("C03|supported-form-rejected|{}|{}|{}", forms, storage, kind), format!("`{}` on a {}x{} {} matrix is in range, this (index forms, storage, kind) combination is supported at the pinned commit, but it was rejected: {}", expr, c.rows, c.cols, kind, other.show()));
          } else {
            v.label(format!("unsupported-form:{}|{}", forms, storage));
          }
        }
      }
    }
  }
  v
}

/// the index *value* is a 1x1 matrix (one-element vector, one-element range, one-flag mask)
pub fn one_by_one_index(ix: &Ix, _len: usize) -> bool {
  match ix {
    Ix::Vec { vals, .. } => vals.len() == 1,
    Ix::Range { a, b, inclusive } => (if *inclusive { *b } else { *b - 1 }) == *a,
    Ix::Mask { flags, .. } => flags.len() == 1,
    _ => false,
  }
}

/// Enumerated stratum: every shape class x every index-form pair holding a mask whose length is off by -2 .. +2 x five flag patterns, for
/// f64 and u8 elements. The table of combinations the pinned tree accepts was learned from exactly these cases, so an acceptance outside
/// it is a change of behaviour (a length check lost), not an unlisted instance of the known finding.
fn masklen_stratum() -> Vec<Case> {
  let mut out = vec![];
  let pats = |n: usize| -> Vec<Vec<bool>> { if n == 0 { return vec![]; } let mut v = vec![vec![true; n], vec![false; n], (0..n).map(|i| i == 0).collect(), (0..n).map(|i| i == n - 1).collect(), (0..n).map(|i| i % 2 == 0).collect()]; v.dedup(); v };
  let bad_masks = |len: usize| -> Vec<Ix> { let mut v = vec![]; for d in [-2i64, -1, 1, 2] { let n = len as i64 + d; if n >= 1 { for f in pats(n as usize) { for var in [false, true] { v.push(Ix::Mask { flags: f.clone(), var }); } } } } v };
  let good = |len: usize| -> Vec<Ix> { vec![Ix::Scalar(1, None), Ix::Scalar(len as i64, Some(K::U64)), Ix::All, Ix::Vec { vals: vec![len as i64, 1], col: false }, Ix::Range { a: 1, b: len as i64, inclusive: true }, Ix::Mask { flags: vec![true; len], var: false }] };
  for ek in [EK::N(K::F64), EK::N(K::U8)] {
    for (rows, cols) in [(1usize, 1usize), (1, 3), (3, 1), (2, 3), (3, 2), (2, 2)] {
      for i in bad_masks(rows * cols) { out.push(Case { ek, rows, cols, i, j: None, strict: true }); }
      for i in bad_masks(rows) { for j in good(cols) { out.push(Case { ek, rows, cols, i: i.clone(), j: Some(j), strict: true }); } }
      for j in bad_masks(cols) { for i in good(rows) { out.push(Case { ek, rows, cols, i, j: Some(j.clone()), strict: true }); } }
      for i in bad_masks(rows).into_iter().step_by(3) { for j in bad_masks(cols).into_iter().step_by(3) { out.push(Case { ek, rows, cols, i: i.clone(), j: Some(j), strict: true }); } }
    }
  }
  out
}

/// which subscript carries a mask of the wrong length, and in which direction (i<, i>, j<, j>)
pub fn mask_rel(c: &Case) -> String {
  let rel = |tag: &str, ix: &Ix, len: usize| match ix { Ix::Mask { flags, .. } if flags.len() < len => format!("{}<", tag), Ix::Mask { flags, .. } if flags.len() > len => format!("{}>", tag), _ => String::new() };
  match &c.j { None => rel("i", &c.i, c.rows * c.cols), Some(j) => format!("{}{}", rel("i", &c.i, c.rows), rel("j", j, c.cols)) }
}

/// (storage | index forms | wrong-length direction) combinations in which the pinned tree accepts a mask of the wrong length
/// (baselines/C03_masklen_accepted.json, learned with tools/learn.py C03 masklen from thorough runs on the pinned tree)
fn masklen_baseline() -> &'static std::collections::HashSet<String> {
  static S: std::sync::OnceLock<std::collections::HashSet<String>> = std::sync::OnceLock::new();
  S.get_or_init(|| {
    let p = format!("{}/baselines/C03_masklen_accepted.json", verif_dir());
    std::fs::read_to_string(p).ok().and_then(|t| serde_json::from_str::<Vec<String>>(&t).ok()).map(|v| v.into_iter().collect()).unwrap_or_default()
  })
}

fn oob_cause(c: &Case) -> &'static str {
  let bad_mask = |ix: &Ix, len: usize| matches!(ix, Ix::Mask { flags, .. } if flags.len() != len);
  let m = match &c.j { None => bad_mask(&c.i, c.rows * c.cols), Some(j) => bad_mask(&c.i, c.rows) || bad_mask(j, c.cols) };
  if m { "mask-length-unchecked" } else { "out-of-range-read" }
}

/// (index forms | storage | kind) combinations observed to be supported on the pinned tree
/// (baselines/C03_supported.json, regenerated with tools/learn.py C03 from a thorough run's evidence).
fn supported() -> &'static std::collections::HashSet<String> {
  static S: std::sync::OnceLock<std::collections::HashSet<String>> = std::sync::OnceLock::new();
  S.get_or_init(|| {
    let p = format!("{}/baselines/C03_supported.json", verif_dir());
    std::fs::read_to_string(p).ok().and_then(|t| serde_json::from_str::<Vec<String>>(&t).ok()).map(|v| v.into_iter().collect()).unwrap_or_default()
  })
}
