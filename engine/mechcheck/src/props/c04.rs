//! C04 Indexed assignment changes exactly the addressed elements.

use crate::engine::*;
use crate::gen::*;
use crate::kinds::*;
use crate::mech::*;
use crate::props::c01::{self, Op};
use crate::props::c03::{distinct_elems, ix_strategy, one_by_one_index, positions, render_ix, shape_strategy, Ix};
use crate::rval::*;
use proptest::prelude::*;
use serde::{Deserialize, Serialize};

pub struct C04;

#[derive(Clone, Debug, Serialize, Deserialize)]
pub enum Src {
  /// scalar of the matrix kind
  Scalar(Sc),
  /// vector source (row or column literal) — only with a 1-D index vector of distinct indices or a mask
  Vector { vals: Vec<Sc>, col: bool },
  /// a source the matrix cannot hold
  WrongKind(Sc),
}

#[derive(Clone, Debug, Serialize, Deserialize)]
pub enum Stmt {
  /// x[i] = src  /  x[i,j] = src ; op = None is plain assignment
  Indexed { i: Ix, j: Option<Ix>, op: Option<Op>, src: Src },
  /// x = <same-shape literal>  /  x op= scalar
  Whole { op: Option<Op>, vals: Vec<Sc> },
}

#[derive(Clone, Debug, Serialize, Deserialize)]
pub struct Case {
  pub ek: EK,
  pub rows: usize,
  pub cols: usize,
  pub stmts: Vec<Stmt>,
  /// enumerated wrong-length-mask stratum: the acceptance table of the pinned tree applies strictly (learned from exactly these cases)
  #[serde(default)]
  pub strict: bool,
}

fn opsym(op: Option<Op>) -> &'static str {
  match op { None => "=", Some(Op::Add) => "+=", Some(Op::Sub) => "-=", Some(Op::Mul) => "*=", Some(Op::Div) => "/=", _ => "=" }
}

fn src_strategy(ek: EK, n_addressed: usize, allow_vec: bool) -> BoxedStrategy<Src> {
  let other: Vec<Sc> = match ek {
    EK::Str => vec![f64b(5.0), Sc::Bool(true)],
    EK::Bool => vec![f64b(5.0), Sc::Str("q".into())],
    EK::N(K::F64) => vec![Sc::Str("q".into()), Sc::Bool(true), Sc::U(8, 9)],
    EK::N(_) => vec![Sc::Str("q".into()), Sc::Bool(true), f64b(9.0)],
  };
  let sc = ek.strategy(Pool::Small).prop_map(Src::Scalar).boxed();
  let wrong = pick(other).prop_map(Src::WrongKind).boxed();
  if allow_vec && n_addressed >= 2 {
    let vecs = (proptest::collection::vec(ek.strategy(Pool::Small), n_addressed), any::<bool>()).prop_map(|(vals, col)| Src::Vector { vals, col }).boxed();
    prop_oneof![5 => sc, 4 => vecs, 1 => wrong].boxed()
  } else {
    prop_oneof![8 => sc, 1 => wrong].boxed()
  }
}

fn distinct(ix: &Ix) -> bool {
  match ix { Ix::Vec { vals, .. } => { let mut v = vals.clone(); v.sort(); v.dedup(); v.len() == vals.len() } _ => true }
}

fn stmt_strategy(ek: EK, rows: usize, cols: usize) -> BoxedStrategy<Stmt> {
  let arith_ok = matches!(ek, EK::N(_));
  let ops: Vec<Option<Op>> = if arith_ok { vec![None, None, None, Some(Op::Add), Some(Op::Sub), Some(Op::Mul), Some(Op::Div)] } else { vec![None] };
  let n = rows * cols;
  let one = (pick(ops.clone()), 0u8..8).prop_flat_map(move |(op, oob)| {
    ix_strategy(n, oob == 0, true).prop_filter("distinct", |i| distinct(i)).prop_flat_map(move |i| {
      let addressed = positions(&i, n).ok().flatten().map(|p| p.len()).unwrap_or(0);
      let allow_vec = matches!(i, Ix::Vec { .. } | Ix::Mask { .. });
      src_strategy(ek, addressed, allow_vec).prop_map(move |src| Stmt::Indexed { i: i.clone(), j: None, op, src })
    })
  }).boxed();
  let two = (pick(ops.clone()), 0u8..10).prop_flat_map(move |(op, oob)| {
    (ix_strategy(rows, oob == 0, true).prop_filter("distinct", |i| distinct(i)), ix_strategy(cols, oob == 1, true).prop_filter("distinct", |i| distinct(i))).prop_flat_map(move |(i, j)| {
      src_strategy(ek, 0, false).prop_map(move |src| Stmt::Indexed { i: i.clone(), j: Some(j.clone()), op, src })
    })
  }).boxed();
  let whole = (pick(ops), proptest::collection::vec(ek.strategy(Pool::Small), n)).prop_map(|(op, vals)| Stmt::Whole { op, vals }).boxed();
  prop_oneof![5 => one, 5 => two, 1 => whole].boxed()
}

impl Prop for C04 {
  type Case = Case;
  const ID: &'static str = "C04";
  fn budget(t: Tier) -> u32 { t.pick(5_000, 80_000) }
  fn strategy(t: Tier, _k: &Known) -> BoxedStrategy<Case> {
    let maxd = t.pick(4, 6);
    // exclusion switches: classes with a listed finding are generated rarely (1 in 8) so that histories are not cut short by them
    let k_op = _k.has("C04|op-assign-acts-as-assign|probe");
    let k_single = _k.has("C04|single-element-index-rejected|probe");
    let k_oob = _k.has("C04|failed-statement-modified-x|out-of-range|probe");
    (pick(all_ek()), shape_strategy(maxd)).prop_flat_map(move |(ek, (rows, cols))| {
      proptest::collection::vec((stmt_strategy(ek, rows, cols), 0u8..8), 1..=5).prop_map(move |stmts| {
        let stmts = stmts.into_iter().map(|(st, dice)| {
          if dice == 0 { return st; }
          match st {
            Stmt::Indexed { i, j, op, src } => {
              let scalarish = |ix: &Ix| matches!(ix, Ix::Scalar(..));
              let mut op = op;
              if k_op && op.is_some() && scalarish(&i) && j.as_ref().map(|j| scalarish(j) || matches!(j, Ix::All)).unwrap_or(true) { op = None; }
              let widen = |ix: Ix, len: usize| -> Ix {
                if !k_single || !one_by_one_index(&ix, 0) { return ix; }
                if len < 2 { return if positions(&ix, len).is_ok() { Ix::All } else { ix }; }
                match ix { Ix::Mask { flags, var } => Ix::Mask { flags, var }, Ix::Vec { vals, col } => { let a = vals[0]; let b = if a as usize >= len { a - 1 } else { a + 1 }; if b >= 1 { Ix::Vec { vals: vec![a, b], col } } else { Ix::Vec { vals, col } } } Ix::Range { a, b, inclusive } => { if (a as usize) < len && a >= 1 { Ix::Range { a, b: b + 1, inclusive } } else { Ix::Range { a, b, inclusive } } } other => other }
              };
              let (i, j) = match j { None => (widen(i, rows * cols), None), Some(j) => (widen(i, rows), Some(widen(j, cols))) };
              // out-of-range vectors/ranges with a valid prefix: keep 1 in 8
              let oob = match &j { None => positions(&i, rows * cols).is_err(), Some(jj) => positions(&i, rows).is_err() || positions(jj, cols).is_err() };
              if k_oob && oob && !matches!((&i, &j), (Ix::Scalar(..), None) | (Ix::Scalar(..), Some(Ix::Scalar(..)))) {
                return Stmt::Indexed { i: Ix::Scalar(0, None), j: j.map(|_| Ix::Scalar(1, None)), op, src };
              }
              Stmt::Indexed { i, j, op, src }
            }
            other => other,
          }
        }).collect();
        Case { ek, rows, cols, stmts, strict: false }
      })
    }).boxed()
  }
  fn rule() -> &'static str {
    "case = a mutable matrix (any kind/shape/storage form) and a history of 1-5 statements: x[F] = s, x[F] = v (distinct index vector or \
     mask, matching length), x[F] op= s|v (op ∈ + - * /), x = literal, x op= s, mixed with invalid ones (out-of-range target, source of a \
     kind the matrix cannot hold). After every statement the whole variable is compared with a model copy (frame + shape + kind) and the \
     written index is read back. Non-trivial statement = addresses a strict non-empty subset or is invalid; distinct key = (storage, kind, \
     statement class, index forms, op, outcome)."
  }
  fn assumptions() -> Vec<String> {
    vec![
      "op= results that are not exactly representable (overflow, inexact integer division) are not judged; the model resynchronises from the observed value".into(),
      "a valid statement that is rejected is judged only if its (class, index forms, storage, kind) combination is in baselines/C04_supported.json; it must leave x unchanged either way".into(),
      "source length different from the number of addressed elements is not in the statement: only the frame condition on non-addressed elements is not checked there (case skipped)".into(),
    ]
  }
  fn describe(c: &Case) -> String {
    let x = Opnd { scalar: false, rows: c.rows, cols: c.cols, data: distinct_elems(c.ek, c.rows * c.cols) };
    let mut out = define_operand("x", &x, true);
    for s in &c.stmts { let (pre, st) = render_stmt(s, c.rows, c.cols, 0); out.extend(pre); out.push(st); }
    out.join("; ")
  }
  fn fixed_cases(_t: Tier) -> Vec<Case> { masklen_stratum() }
  fn check(c: &Case, _cx: &Cx) -> Verdict { check(c) }
}

fn src_text(src: &Src) -> String {
  match src {
    Src::Scalar(s) | Src::WrongKind(s) => lit(s),
    Src::Vector { vals, col } => format!("[{}]", vals.iter().map(lit).collect::<Vec<_>>().join(if *col { "; " } else { " " })),
  }
}

fn render_stmt(s: &Stmt, rows: usize, cols: usize, k: usize) -> (Vec<String>, String) {
  let mut pre = vec![];
  match s {
    Stmt::Indexed { i, j, op, src } => {
      let it = render_ix(i, &format!("i{}", k), &mut pre);
      let target = match j { Some(j) => { let jt = render_ix(j, &format!("j{}", k), &mut pre); format!("x[{},{}]", it, jt) } None => format!("x[{}]", it) };
      (pre, format!("{} {} {}", target, opsym(*op), src_text(src)))
    }
    Stmt::Whole { op, vals } => match op {
      None => (pre, format!("x = {}", mat_typed(rows, cols, vals))),
      Some(_) => (pre, format!("x {} {}", opsym(*op), lit(&vals[0]))),
    },
  }
}

fn supported() -> &'static std::collections::HashSet<String> {
  static S: std::sync::OnceLock<std::collections::HashSet<String>> = std::sync::OnceLock::new();
  S.get_or_init(|| {
    let p = format!("{}/baselines/C04_supported.json", verif_dir());
    std::fs::read_to_string(p).ok().and_then(|t| serde_json::from_str::<Vec<String>>(&t).ok()).map(|v| v.into_iter().collect()).unwrap_or_default()
  })
}

fn check(c: &Case) -> Verdict {
  let mut v = Verdict::new();
  let mut model = Opnd { scalar: false, rows: c.rows, cols: c.cols, data: distinct_elems(c.ek, c.rows * c.cols) };
  let storage = model.form();
  let kind = c.ek.name();
  let mut sess = Session::new();
  if let Err(m) = install_operand(&mut sess, "x", &model, true) { v.harness(m); return v; }
  v.label(format!("storage:{}", storage));
  v.label(format!("kind:{}", kind));
  v.evals = 0;
  let mut keys: Vec<String> = vec![];
  let mut touched: std::collections::HashSet<usize> = Default::default();
  let mut overlap = false;
  for (k, s) in c.stmts.iter().enumerate() {
    v.evals += 1;
    let (pre, text) = render_stmt(s, c.rows, c.cols, k);
    for p in &pre { match sess.run(p) { Outcome::Ok(_) => {} o => { v.harness(format!("index setup `{}` gave {}", p, o.show())); return v; } } }
    let before = model.clone();
    // ---- model
    enum Want { Positions(Vec<usize>), Invalid(&'static str), Skip(&'static str) }
    let (want, forms, cls, op, src): (Want, String, &str, Option<Op>, Option<&Src>) = match s {
      Stmt::Indexed { i, j, op, src } => {
        let forms = format!("{}{}", i.form(), j.as_ref().map(|j| j.form()).unwrap_or("-"));
        let pos: Result<Option<Vec<usize>>, ()> = match j {
          None => positions(i, c.rows * c.cols).map(|o| o.map(|p| p.into_iter().map(|x| x - 1).collect())),
          Some(j) => match (positions(i, c.rows), positions(j, c.cols)) {
            (Err(()), _) | (_, Err(())) => Err(()),
            (Ok(None), _) | (_, Ok(None)) => Ok(None),
            (Ok(Some(pi)), Ok(Some(pj))) => { let mut d = vec![]; for cj in &pj { for ri in &pi { d.push((cj - 1) * c.rows + (ri - 1)); } } Ok(Some(d)) }
          },
        };
        let cls = match src { Src::Scalar(_) => "scalar", Src::Vector { .. } => "vector", Src::WrongKind(_) => "wrongkind" };
        let w = match (&pos, src) {
          (Err(()), _) => Want::Invalid("out-of-range"),
          (Ok(None), _) => Want::Skip("empty-selection"),
          (Ok(Some(_)), Src::WrongKind(_)) => Want::Invalid("wrong-kind"),
          (Ok(Some(p)), Src::Vector { vals, .. }) => if vals.len() == p.len() { Want::Positions(p.clone()) } else { Want::Skip("length-mismatch") },
          (Ok(Some(p)), Src::Scalar(_)) => Want::Positions(p.clone()),
        };
        (w, forms, cls, *op, Some(src))
      }
      Stmt::Whole { op, .. } => (Want::Positions((0..c.rows * c.cols).collect()), "whole".to_string(), "whole", *op, None),
    };
    let opname = op.map(|o| o.name()).unwrap_or("set".into());
    let cz = if matches!(s, Stmt::Indexed { i: Ix::Mask { .. }, j: None, src: Src::Vector { .. }, .. }) { "mask-vector-source|" }
      else if matches!(s, Stmt::Indexed { i: Ix::Vec { .. } | Ix::Range { .. }, j: Some(Ix::Mask { .. }), op: None, src: Src::Scalar(_) }) { "rows-as-mask|" }
      else { "" };
    v.label(format!("stmt:{}:{}:{}", cls, forms, opname));
    let out = sess.run(&text);
    if let Outcome::NotCode = out { v.harness(format!("`{}` parsed as prose", text)); return v; }
    if let Outcome::Panic(m) = &out { v.fail(format!("C04|{}panic-escaped|{}|{}", cz, cls, forms), m.clone()); return v; }
    let now = match sess.snapshot().get("x") { Some(r) => r.clone(), None => { v.fail("C04|variable-lost", format!("x undefined after `{}`", text)); return v; } };
    let fkey = format!("{}|{}|{}|{}|{}", cls, forms, opname, storage, kind);
    match want {
      Want::Skip(why) => {
        v.label(format!("skip:{}", why));
        // resynchronise the model from the observed value when it still has shape and kind
        match resync(&now, &model) { Some(m) => model = m, None => { v.label("history-cut"); break; } }
        continue;
      }
      Want::Invalid(why) => {
        keys.push(format!("{}|invalid:{}|{}", fkey, why, out.class()));
        if out.is_ok() {
          let why2 = if why == "out-of-range" && mask_len_bad(s, c.rows, c.cols) { "mask-length-unchecked" } else { why };
          if why2 == "mask-length-unchecked" && c.strict {
            // the listed finding is tied to the places where the pinned tree accepts a mask of the wrong length; in the enumerated stratum an
            // acceptance outside that table is a length check that was lost
            let mkey = format!("{}|{}|{}|{}|{}", storage, cls, forms, opname, mask_rel(s, c.rows, c.cols));
            v.label(format!("masklen-accepted:{}", mkey));
            if !(masklen_baseline().contains(&mkey) || std::env::var("VERIF_LEARN").is_ok()) {
              v.fail(format!("C04|mask-length-newly-accepted|{}", mkey), format!("`{}` on a {}x{} {} matrix: a mask of the wrong length is rejected here on the pinned tree but succeeded; x = {}", text, c.rows, c.cols, kind, now.show()));
              return v;
            }
          }
          v.fail(format!("C04|{}invalid-accepted|{}|{}|{}|{}", cz, why2, cls, forms, opname), format!("`{}` on a {}x{} {} matrix should be an error but succeeded; x = {}", text, c.rows, c.cols, kind, now.show()));
          return v;
        }
        if now != before.rval() {
          v.fail(format!("C04|{}failed-statement-modified-x|{}|{}|{}|{}", cz, why, cls, forms, opname), format!("`{}` failed ({}) but x changed from {} to {}", text, out.show(), before.show(), now.show()));
          return v;
        }
      }
      Want::Positions(p) => {
        if p.len() < c.rows * c.cols { keys.push(format!("{}|{}", fkey, out.class())); }
        if p.iter().any(|x| touched.contains(x)) { overlap = true; }
        for x in &p { touched.insert(*x); }
        // expected new values
        let mut expect: Vec<Option<Sc>> = vec![None; c.rows * c.cols]; // None = unjudged
        let mut judged = true;
        for (n, lin) in p.iter().enumerate() {
          let srcv: Sc = match (s, src) {
            (Stmt::Whole { vals, op: None }, _) => vals[*lin].clone(),
            (Stmt::Whole { vals, .. }, _) => vals[0].clone(),
            (_, Some(Src::Scalar(sv))) => sv.clone(),
            (_, Some(Src::Vector { vals, .. })) => vals[n].clone(),
            _ => unreachable!(),
          };
          let newv = match op {
            None => Some(srcv),
            Some(o) => match c01::model(o, &model.data[*lin], Some(&srcv)) {
              c01::Expect::Exactly(r) => Some(r),
              _ => { judged = false; None }
            },
          };
          expect[*lin] = newv;
        }
        match &out {
          Outcome::Ok(_) => {
            v.label(format!("supported:{}", fkey));
            let RVal::Mat { kind: k2, rows: r2, cols: c2, data } = &now else { v.fail(format!("C04|{}shape-or-kind-changed|{}|{}", cz, cls, forms), format!("after `{}` x is {}", text, now.show())); return v; };
            if *k2 != kind || (*r2, *c2) != (c.rows, c.cols) { v.fail(format!("C04|{}shape-or-kind-changed|{}|{}", cz, cls, forms), format!("after `{}` x is {}", text, now.show())); return v; }
            for lin in 0..c.rows * c.cols {
              let addressed = p.contains(&lin);
              let got = &data[lin];
              if !addressed {
                if *got != RVal::S(model.data[lin].clone()) {
                  v.fail(format!("C04|{}frame|{}|{}|{}|{}", cz, cls, forms, opname, storage), format!("`{}` changed the non-addressed element at linear position {}: {} → {} (x before {}, after {})", text, lin + 1, model.data[lin].show(), got.show(), before.show(), now.show()));
                  return v;
                }
              } else if let Some(e) = &expect[lin] {
                if *got != RVal::S(e.clone()) {
                  let sigcls = if op.is_some() && src_equal(got, s, src, &p, lin) { "op-assign-acts-as-assign" } else { "wrong-value" };
                  v.fail(format!("C04|{}{}|{}|{}|{}", cz, sigcls, cls, forms, opname), format!("`{}`: element at linear position {} is {} expected {} (x before {}, after {})", text, lin + 1, got.show(), e.show(), before.show(), now.show()));
                  return v;
                }
              }
            }
            // adopt observed values (covers unjudged op= results)
            match resync(&now, &model) { Some(m) => model = m, None => { v.fail(format!("C04|{}shape-or-kind-changed|{}|{}", cz, cls, forms), format!("x became {}", now.show())); return v; } }
            // read-back through the same index (plain assignment with judged values only)
            if let (Stmt::Indexed { i, j, .. }, true) = (s, judged) {
              let mut pre2 = vec![];
              let it = render_ix(i, &format!("i{}", k), &mut pre2);
              let rd = match j { Some(j) => format!("x[{},{}]", it, render_ix(j, &format!("j{}", k), &mut pre2)), None => format!("x[{}]", it) };
              let got = sess.run(&rd);
              if let Outcome::Ok(val) = &got {
                let want: Vec<RVal> = p.iter().map(|lin| RVal::S(model.data[*lin].clone())).collect();
                if val.elems() != want { v.fail(format!("C04|{}read-back|{}|{}", cz, cls, forms), format!("after `{}`, `{}` reads {} expected [{}]", text, rd, val.show(), want.iter().map(|x| x.show()).collect::<Vec<_>>().join(" "))); return v; }
              } else { v.label("read-back-unsupported"); }
            }
          }
          other => {
            // valid statement rejected: x must be unchanged; a regression only if the combination is known to be supported
            if !judged {
              // the statement failed in the arithmetic itself (overflow, division by zero): C04 does not speak about
              // that failure (C05 does); resynchronise and go on
              v.label("rejected-unjudged-arith");
              match resync(&now, &model) { Some(m) => model = m, None => { v.label("history-cut"); break; } }
              continue;
            }
            if now != before.rval() {
              v.fail(format!("C04|{}failed-statement-modified-x|valid|{}|{}|{}", cz, cls, forms, opname), format!("`{}` failed ({}) but x changed from {} to {}", text, other.show(), before.show(), now.show()));
              return v;
            }
            let single = match s { Stmt::Indexed { i, j, .. } => one_by_one_index(i, 0) || j.as_ref().map(|j| one_by_one_index(j, 0)).unwrap_or(false), _ => false };
            if single {
              v.fail(format!("C04|{}single-element-index-rejected|{}|{}|{}", cz, cls, forms, opname), format!("`{}` on a {}x{} {} matrix addresses existing elements through a one-element index vector/range/mask but was rejected: {}", text, c.rows, c.cols, kind, other.show()));
              return v;
            }
            if supported().contains(&fkey) {
              v.fail(format!("C04|{}supported-form-rejected|{}", cz, fkey), format!("`{}` on a {}x{} {} matrix is valid and this combination is supported at the pinned commit, but it was rejected: {}", text, c.rows, c.cols, kind, other.show()));
              return v;
            } else { v.label(format!("unsupported-form:{}|{}|{}", cls, forms, opname)); }
          }
        }
      }
    }
  }
  if overlap { keys.push(format!("overlap|{}|{}", storage, kind)); }
  if !keys.is_empty() { v.key = Some(keys.join(";")); }
  v
}

/// does the observed element equal the plain source (i.e. op= behaved like =)?
fn src_equal(got: &RVal, s: &Stmt, src: Option<&Src>, p: &[usize], lin: usize) -> bool {
  let n = p.iter().position(|x| *x == lin).unwrap_or(0);
  let sv = match (s, src) {
    (Stmt::Whole { vals, .. }, _) => vals[0].clone(),
    (_, Some(Src::Scalar(sv))) => sv.clone(),
    (_, Some(Src::Vector { vals, .. })) => vals[n].clone(),
    _ => return false,
  };
  *got == RVal::S(sv)
}

fn resync(now: &RVal, model: &Opnd) -> Option<Opnd> {
  match now {
    RVal::Mat { kind, rows, cols, data } if *kind == model.kind() && (*rows, *cols) == (model.rows, model.cols) => {
      let mut d = vec![];
      for e in data { match e { RVal::S(s) => d.push(s.clone()), _ => return None } }
      Some(Opnd { scalar: false, rows: *rows, cols: *cols, data: d })
    }
    _ => None,
  }
}

fn mask_rel(s: &Stmt, rows: usize, cols: usize) -> String {
  let rel = |tag: &str, ix: &Ix, len: usize| match ix { Ix::Mask { flags, .. } if flags.len() < len => format!("{}<", tag), Ix::Mask { flags, .. } if flags.len() > len => format!("{}>", tag), _ => String::new() };
  match s { Stmt::Indexed { i, j: None, .. } => rel("i", i, rows * cols), Stmt::Indexed { i, j: Some(j), .. } => format!("{}{}", rel("i", i, rows), rel("j", j, cols)), _ => String::new() }
}

fn masklen_baseline() -> &'static std::collections::HashSet<String> {
  static S: std::sync::OnceLock<std::collections::HashSet<String>> = std::sync::OnceLock::new();
  S.get_or_init(|| {
    let p = format!("{}/baselines/C04_masklen_accepted.json", verif_dir());
    std::fs::read_to_string(p).ok().and_then(|t| serde_json::from_str::<Vec<String>>(&t).ok()).map(|v| v.into_iter().collect()).unwrap_or_default()
  })
}

/// Enumerated stratum: one statement per case; every shape class x index-form pair holding a mask whose length is off by -2 .. +2 x flag
/// patterns x {=, +=, *=} with a scalar source, f64 and u8 elements.
fn masklen_stratum() -> Vec<Case> {
  let mut out = vec![];
  let pats = |n: usize| -> Vec<Vec<bool>> { let mut v = vec![vec![true; n], vec![false; n], (0..n).map(|i| i == 0).collect(), (0..n).map(|i| i == n - 1).collect()]; v.dedup(); v };
  let bad_masks = |len: usize| -> Vec<Ix> { let mut v = vec![]; for d in [-2i64, -1, 1, 2] { let n = len as i64 + d; if n >= 1 { for f in pats(n as usize) { v.push(Ix::Mask { flags: f.clone(), var: false }); } } } v };
  let good = |len: usize| -> Vec<Ix> { vec![Ix::Scalar(1, None), Ix::All, Ix::Vec { vals: vec![len as i64, 1], col: false }, Ix::Range { a: 1, b: len as i64, inclusive: true }, Ix::Mask { flags: vec![true; len], var: false }] };
  for ek in [EK::N(K::F64), EK::N(K::U8)] {
    let sv = match ek { EK::N(K::U8) => Sc::U(8, 2), _ => f64b(2.0) };
    for (rows, cols) in [(1usize, 1usize), (1, 3), (3, 1), (2, 3), (3, 2), (2, 2)] {
      for op in [None, Some(Op::Add), Some(Op::Mul)] {
        let mk = |i: Ix, j: Option<Ix>| Case { ek, rows, cols, stmts: vec![Stmt::Indexed { i, j, op, src: Src::Scalar(sv.clone()) }], strict: true };
        for i in bad_masks(rows * cols) { out.push(mk(i, None)); }
        for i in bad_masks(rows) { for j in good(cols) { out.push(mk(i.clone(), Some(j))); } }
        for j in bad_masks(cols) { for i in good(rows) { out.push(mk(i, Some(j.clone()))); } }
      }
    }
  }
  out
}

fn mask_len_bad(s: &Stmt, rows: usize, cols: usize) -> bool {
  let bad = |ix: &Ix, len: usize| matches!(ix, Ix::Mask { flags, .. } if flags.len() != len);
  match s { Stmt::Indexed { i, j: None, .. } => bad(i, rows * cols), Stmt::Indexed { i, j: Some(j), .. } => bad(i, rows) || bad(j, cols), _ => false }
}
