//! C05 Bindings are isolated: immutable means unchanged, failures change nothing.

use crate::engine::*;
use crate::gen::*;
use crate::kinds::*;
use crate::mech::*;
use crate::rval::*;
use proptest::prelude::*;
use serde::{Deserialize, Serialize};
use std::collections::{BTreeMap, BTreeSet};

pub struct C05;

const NAMES: [&str; 5] = ["a", "b", "c", "d", "e"];

/// value families, all written as self-contained literal expressions
#[derive(Clone, Debug, PartialEq, Serialize, Deserialize)]
pub enum Val {
  F(i32),              // f64 scalar n.5
  U8(u8),              // typed scalar
  Str(String),
  Bool(bool),
  Row(Vec<i32>),       // f64 row vector
  Col(Vec<u8>),        // u8 column vector (typed elements)
  Mat(Vec<i32>),       // 2x2 f64, row-major text
  Tuple(i32, String),
  Record(i32, String), // {x: f64, y: string}
  Set(Vec<i32>),
  Table(Vec<i32>),     // | x<f64> y<f64> | rows…  (pairs)
  ColF(Vec<i32>),      // f64 column vector
  /// scalar of any of the 14 numeric kinds (index into ALL_KINDS), written `n<kind>`
  KS(u8, u8),
  /// row / column vector (shape 0 / 1) or 2x2 matrix (shape 2) of any numeric kind, written with typed elements
  KV(u8, u8, Vec<u8>),
}

impl Val {
  fn family(&self) -> &'static str {
    match self { Val::F(_) => "f64", Val::U8(_) => "u8", Val::Str(_) => "string", Val::Bool(_) => "bool", Val::Row(_) => "row", Val::Col(_) => "col", Val::Mat(_) => "mat", Val::Tuple(..) => "tuple", Val::Record(..) => "record", Val::Set(_) => "set", Val::Table(_) => "table", Val::ColF(_) => "colf", Val::KS(..) => "kinded-scalar", Val::KV(..) => "kinded-matrix" }
  }
  fn text(&self) -> String {
    match self {
      Val::F(n) => format!("{}.5", n),
      Val::U8(n) => format!("{}<u8>", n),
      Val::Str(s) => format!("\"{}\"", s),
      Val::Bool(b) => format!("{}", b),
      Val::Row(v) => format!("[{}]", v.iter().map(|x| format!("{}.0", x)).collect::<Vec<_>>().join(" ")),
      Val::Col(v) => format!("[{}]", v.iter().map(|x| format!("{}<u8>", x)).collect::<Vec<_>>().join("; ")),
      Val::Mat(v) => format!("[{}.0 {}.0; {}.0 {}.0]", v[0], v[1], v[2], v[3]),
      Val::Tuple(n, s) => format!("({}.0, \"{}\")", n, s),
      Val::Record(n, s) => format!("{{x: {}.0, y: \"{}\"}}", n, s),
      Val::Set(v) => format!("{{{}}}", v.iter().map(|x| format!("{}.0", x)).collect::<Vec<_>>().join(", ")),
      Val::Table(v) => format!("| x<f64> y<f64> | {} |", v.chunks(2).map(|p| format!("{} {}", p[0], p[1])).collect::<Vec<_>>().join(" | ")),
      Val::ColF(v) => format!("[{}]", v.iter().map(|x| format!("{}.0", x)).collect::<Vec<_>>().join("; ")),
      Val::KS(k, n) => ksc(*k, *n),
      Val::KV(k, shape, v) => { let e: Vec<String> = v.iter().map(|n| ksc(*k, *n)).collect(); match shape % 3 { 0 => format!("[{}]", e.join(" ")), 1 => format!("[{}]", e.join("; ")), _ => format!("[{} {}; {} {}]", e[0], e[1 % e.len()], e[2 % e.len()], e[3 % e.len()]) } }
    }
  }
  /// the kind annotation that fits this value, if it is one of the kinded families
  /// kind annotation of the scalar families (string and bool included)
  fn scalar_annotation(&self) -> Option<String> {
    match self { Val::KS(k, _) => Some(ALL_KINDS[*k as usize % 14].name().to_string()), Val::F(_) => Some("f64".into()), Val::U8(_) => Some("u8".into()), Val::Str(_) => Some("string".into()), Val::Bool(_) => Some("bool".into()), _ => None }
  }
  fn annotation(&self) -> Option<String> {
    match self { Val::KS(k, _) => Some(ALL_KINDS[*k as usize % 14].name().to_string()), Val::KV(k, _, _) => Some(format!("[{}]", ALL_KINDS[*k as usize % 14].name())), Val::F(_) => Some("f64".into()), Val::U8(_) => Some("u8".into()), _ => None }
  }
}

/// small scalar `n` of kind #k as a typed literal expression
fn ksc(k: u8, n: u8) -> String {
  let kind = ALL_KINDS[k as usize % 14];
  let n = (n % 9 + 1) as i128;
  match kind {
    K::F64 => format!("{}.5", n), K::F32 => format!("{}.5<f32>", n), K::R64 => format!("{}/7", n), K::C64 => format!("{}.0+{}.0i", n, n + 1),
    k if k.is_signed() => format!("{}<{}>", n, k.name()),
    k => format!("{}<{}>", n, k.name()),
  }
}

#[derive(Clone, Debug, PartialEq, Serialize, Deserialize)]
pub enum St {
  Define { name: usize, mutable: bool, val: Val },
  /// `x<kind> := value` (the annotation matches the value's own kind)
  DefineAnnotated { name: usize, mutable: bool, val: Val },
  DefineFrom { name: usize, mutable: bool, src: usize },
  /// `y<kind> := x` where `kind` is the scalar kind x was last defined with (filled in by the strategy's post-pass; None = x's kind unknown,
  /// rendered as a plain define-from). A same-kind annotated define from a bare name gives y its own cell on the pinned tree.
  DefineFromAnnotated { name: usize, mutable: bool, src: usize, ann: Option<String> },
  DefineExpr { name: usize, mutable: bool, src: usize },
  DefineIndex { name: usize, src: usize, ix: u8 },
  Assign { name: usize, val: Val },
  AssignFrom { name: usize, src: usize },
  IndexAssign { name: usize, ix: u8, val: i32 },
  RangeAssign { name: usize, hi: u8, val: i32 },
  OpAssign { name: usize, op: u8, val: i32 },
  /// `a op= b` with another *name* on the right: the right-hand name must come out unchanged
  OpAssignFrom { name: usize, op: u8, src: usize },
  FieldAssign { name: usize, val: i32 },
  Destructure { names: Vec<usize>, arity: usize, from: Option<usize> },
  UseUndefined { name: usize },
}

#[derive(Clone, Debug, Serialize, Deserialize)]
pub struct Case { pub stmts: Vec<St> }

fn val_strategy() -> BoxedStrategy<Val> {
  prop_oneof![
    3 => (0i32..9).prop_map(Val::F),
    2 => (0u8..9).prop_map(Val::U8),
    1 => prop_oneof![Just("s"), Just("t"), Just("uv")].prop_map(|s| Val::Str(s.to_string())),
    1 => any::<bool>().prop_map(Val::Bool),
    3 => proptest::collection::vec(0i32..9, 2..=4).prop_map(Val::Row),
    2 => proptest::collection::vec(0u8..9, 2..=3).prop_map(Val::Col),
    2 => proptest::collection::vec(0i32..9, 4).prop_map(Val::Mat),
    2 => (0i32..9, prop_oneof![Just("p"), Just("q")]).prop_map(|(n, s)| Val::Tuple(n, s.to_string())),
    2 => (0i32..9, prop_oneof![Just("p"), Just("q")]).prop_map(|(n, s)| Val::Record(n, s.to_string())),
    1 => proptest::collection::vec(0i32..9, 1..=3).prop_map(|mut v| { v.sort(); v.dedup(); Val::Set(v) }),
    1 => proptest::collection::vec(0i32..9, 4).prop_map(Val::Table),
    2 => proptest::collection::vec(1i32..9, 2..=3).prop_map(Val::ColF),
    5 => (0u8..14, 0u8..9).prop_map(|(k, n)| Val::KS(k, n)),
    5 => (0u8..14, 0u8..3, proptest::collection::vec(0u8..9, 2..=4)).prop_map(|(k, sh, v)| Val::KV(k, sh, v)),
  ].boxed()
}

fn st_strategy() -> BoxedStrategy<St> {
  let n = || 0usize..NAMES.len();
  prop_oneof![
    6 => (n(), any::<bool>(), val_strategy()).prop_map(|(name, mutable, val)| St::Define { name, mutable, val }),
    2 => (n(), any::<bool>(), val_strategy()).prop_map(|(name, mutable, val)| St::DefineAnnotated { name, mutable, val }),
    4 => (n(), any::<bool>(), n()).prop_map(|(name, mutable, src)| St::DefineFrom { name, mutable, src }),
    5 => (n(), any::<bool>(), n()).prop_map(|(name, mutable, src)| St::DefineFromAnnotated { name, mutable, src, ann: None }),
    2 => (n(), any::<bool>(), n()).prop_map(|(name, mutable, src)| St::DefineExpr { name, mutable, src }),
    2 => (n(), n(), 0u8..6).prop_map(|(name, src, ix)| St::DefineIndex { name, src, ix }),
    4 => (n(), val_strategy()).prop_map(|(name, val)| St::Assign { name, val }),
    2 => (n(), n()).prop_map(|(name, src)| St::AssignFrom { name, src }),
    4 => (n(), 0u8..6, 0i32..9).prop_map(|(name, ix, val)| St::IndexAssign { name, ix, val }),
    2 => (n(), 2u8..7, 0i32..9).prop_map(|(name, hi, val)| St::RangeAssign { name, hi, val }),
    3 => (n(), 0u8..4, 0i32..9).prop_map(|(name, op, val)| St::OpAssign { name, op, val }),
    3 => (n(), 0u8..4, n()).prop_map(|(name, op, src)| St::OpAssignFrom { name, op, src }),
    2 => (n(), 0i32..9).prop_map(|(name, val)| St::FieldAssign { name, val }),
    2 => (proptest::collection::vec(n(), 1..=3), 1usize..=3, proptest::option::of(n())).prop_map(|(names, arity, from)| St::Destructure { names, arity, from }),
    1 => n().prop_map(|name| St::UseUndefined { name }),
  ].boxed()
}

impl Prop for C05 {
  type Case = Case;
  const ID: &'static str = "C05";
  fn budget(t: Tier) -> u32 { t.pick(12_000, 200_000) }
  fn strategy(_t: Tier, k: &Known) -> BoxedStrategy<Case> {
    let k_alias = k.has("C05|alias|probe");
    (proptest::collection::vec((st_strategy(), 0u8..8), 4..=25)).prop_map(move |v| {
      // exclusion switch for the listed aliasing finding: when on, a statement that would mutate a name sharing its
      // value with another name (define-from-name / assign-from-name / destructure / record-or-tuple built from it)
      // is replaced by a harmless read in 7 of 8 cases, so that the rest of the history space is still searched
      let mut groups: BTreeMap<usize, usize> = BTreeMap::new(); // name -> alias group id
      let mut next = 0usize;
      let mut out = vec![];
      // scalar kind each name was defined with (for annotated define-from-name)
      let mut anns: BTreeMap<usize, String> = BTreeMap::new();
      for (st, dice) in v {
        let shared = |groups: &BTreeMap<usize, usize>, n: usize| groups.get(&n).map(|g| groups.values().filter(|x| *x == g).count() > 1).unwrap_or(false);
        let st2 = match &st {
          St::Assign { name, .. } | St::AssignFrom { name, .. } | St::IndexAssign { name, .. } | St::RangeAssign { name, .. } | St::OpAssign { name, .. } | St::OpAssignFrom { name, .. } | St::FieldAssign { name, .. }
            if k_alias && dice != 0 && shared(&groups, *name) => St::UseUndefined { name: *name },
          St::DefineFromAnnotated { name, mutable, src, .. } => match anns.get(src) { Some(a) => St::DefineFromAnnotated { name: *name, mutable: *mutable, src: *src, ann: Some(a.clone()) }, None => St::DefineFrom { name: *name, mutable: *mutable, src: *src } },
          _ => st.clone(),
        };
        match &st2 {
          St::Define { name, val, .. } | St::DefineAnnotated { name, val, .. } if !groups.contains_key(name) => { if let Some(a) = val.scalar_annotation() { anns.insert(*name, a); } }
          St::DefineFrom { name, src, .. } | St::DefineFromAnnotated { name, src, .. } if !groups.contains_key(name) => { if let Some(a) = anns.get(src).cloned() { anns.insert(*name, a); } }
          _ => {}
        }
        match &st2 {
          St::Define { name, .. } | St::DefineAnnotated { name, .. } | St::DefineExpr { name, .. } | St::DefineIndex { name, .. } | St::DefineFromAnnotated { name, .. } => { if !groups.contains_key(name) { groups.insert(*name, next); next += 1; } }
          St::DefineFrom { name, src, .. } => { if !groups.contains_key(name) { if let Some(g) = groups.get(src).copied() { groups.insert(*name, g); } } }
          St::AssignFrom { name, src } => { if let (Some(_), Some(g)) = (groups.get(name), groups.get(src).copied()) { groups.insert(*name, g); } }
          St::Destructure { names, from: Some(src), .. } => { if let Some(g) = groups.get(src).copied() { for nm in names { if !groups.contains_key(nm) { groups.insert(*nm, g); } } } }
          St::Destructure { names, from: None, .. } => { for nm in names { if !groups.contains_key(nm) { groups.insert(*nm, next); next += 1; } } }
          _ => {}
        }
        out.push(st2);
      }
      Case { stmts: out }
    }).boxed()
  }
  fn rule() -> &'static str {
    "case = history of 4-25 statements over names {a..e} executed one per interpret() call in one session: define / mutable define (13 \
     value families: scalars and row/column/2x2 matrices of all 14 numeric kinds (plain and with a kind annotation), f64/u8 scalars, string, bool, row/column (u8 and f64)/general matrix, tuple, record, set, table), define from another name (plain, and with the annotation of the kind the source name was defined with), \
     from an expression, from an index, assign, assign from name, indexed assign, op-assign with a literal and with another name on the right, record-field assign, tuple destructure \
     (right/wrong arity, names already defined), use of an undefined name — valid and invalid mixed. After every statement the full symbol \
     snapshot (values + mutability) is compared with the previous one and with a reference store. Non-trivial = history contains a \
     define-from-name later followed by a mutation of either name, or a failing statement after ≥2 successful ones; distinct key = \
     sequence of (rule, family, outcome class) triples (first 8)."
  }
  fn assumptions() -> Vec<String> {
    vec![
      "`ans` (REPL last-result register) is not a user variable and is excluded from snapshots".into(),
      "success/failure is demanded only where the property names the error (redefinition, undefined name, immutable target); every other statement gets the frame conditions only".into(),
    ]
  }
  fn describe(c: &Case) -> String { c.stmts.iter().map(render).collect::<Vec<_>>().join("; ") }
  fn check(c: &Case, _cx: &Cx) -> Verdict { check(c) }
}

fn nm(i: usize) -> &'static str { NAMES[i] }

fn render(s: &St) -> String {
  match s {
    St::Define { name, mutable, val } => format!("{}{} := {}", if *mutable { "~" } else { "" }, nm(*name), val.text()),
    St::DefineAnnotated { name, mutable, val } => match val.annotation() { Some(a) => format!("{}{}<{}> := {}", if *mutable { "~" } else { "" }, nm(*name), a, val.text()), None => format!("{}{} := {}", if *mutable { "~" } else { "" }, nm(*name), val.text()) },
    St::DefineFrom { name, mutable, src } => format!("{}{} := {}", if *mutable { "~" } else { "" }, nm(*name), nm(*src)),
    St::DefineFromAnnotated { name, mutable, src, ann } => match ann { Some(a) => format!("{}{}<{}> := {}", if *mutable { "~" } else { "" }, nm(*name), a, nm(*src)), None => format!("{}{} := {}", if *mutable { "~" } else { "" }, nm(*name), nm(*src)) },
    St::DefineExpr { name, mutable, src } => format!("{}{} := {} + 1.0", if *mutable { "~" } else { "" }, nm(*name), nm(*src)),
    St::DefineIndex { name, src, ix } => format!("{} := {}[{}]", nm(*name), nm(*src), ix),
    St::Assign { name, val } => format!("{} = {}", nm(*name), val.text()),
    St::AssignFrom { name, src } => format!("{} = {}", nm(*name), nm(*src)),
    St::IndexAssign { name, ix, val } => format!("{}[{}] = {}.0", nm(*name), ix, val),
    St::RangeAssign { name, hi, val } => format!("{}[1..={}] = {}.0", nm(*name), hi, val),
    St::OpAssign { name, op, val } => format!("{} {} {}.0", nm(*name), ["+=", "-=", "*=", "/="][*op as usize % 4], val),
    St::OpAssignFrom { name, op, src } => format!("{} {} {}", nm(*name), ["+=", "-=", "*=", "/="][*op as usize % 4], nm(*src)),
    St::FieldAssign { name, val } => format!("{}.x = {}.0", nm(*name), val),
    St::Destructure { names, arity, from } => {
      let lhs = format!("({})", names.iter().map(|n| nm(*n)).collect::<Vec<_>>().join(", "));
      match from { Some(src) => format!("{} := {}", lhs, nm(*src)), None => format!("{} := ({})", lhs, (0..*arity).map(|i| format!("{}.0", i + 1)).collect::<Vec<_>>().join(", ")) }
    }
    St::UseUndefined { name } => format!("{} := zz + 1.0", nm(*name)),
  }
}

fn rule_name(s: &St) -> &'static str {
  match s { St::Define { mutable: false, .. } => "def", St::Define { .. } => "mdef", St::DefineAnnotated { .. } => "def-annotated", St::DefineFrom { .. } => "def-from", St::DefineFromAnnotated { .. } => "def-from-annotated", St::DefineExpr { .. } => "def-expr", St::DefineIndex { .. } => "def-index", St::Assign { .. } => "assign", St::AssignFrom { .. } => "assign-from", St::IndexAssign { .. } => "index-assign", St::RangeAssign { .. } => "range-assign", St::OpAssign { .. } => "op-assign", St::OpAssignFrom { .. } => "op-assign-from", St::FieldAssign { .. } => "field-assign", St::Destructure { .. } => "destructure", St::UseUndefined { .. } => "undefined-rhs" }
}

type Store = BTreeMap<String, (bool, RVal)>;

fn observe(sess: &Session) -> Store {
  let snap = sess.snapshot();
  let muts: BTreeSet<String> = mutable_names(&sess.intrp).into_iter().collect();
  snap.into_iter().map(|(k, v)| { let m = muts.contains(&k); (k, (m, v)) }).collect()
}

fn diff(a: &Store, b: &Store) -> Vec<String> {
  let mut out = vec![];
  for (k, v) in a { match b.get(k) { None => out.push(format!("{} removed", k)), Some(w) if w != v => out.push(format!("{}: {}{} → {}{}", k, if v.0 { "~" } else { "" }, v.1.show(), if w.0 { "~" } else { "" }, w.1.show())), _ => {} } }
  for (k, w) in b { if !a.contains_key(k) { out.push(format!("{} added = {}{}", k, if w.0 { "~" } else { "" }, w.1.show())); } }
  out
}

enum Demand { MustErr(&'static str), Open }

fn check(c: &Case) -> Verdict {
  let mut v = Verdict::new();
  let mut sess = Session::new();
  let mut prev: Store = observe(&sess);
  // the value each immutable name was defined with
  let mut immut_def: BTreeMap<String, RVal> = BTreeMap::new();
  // alias bookkeeping for signatures: name -> names it was defined from / shares with
  let mut derived: BTreeMap<String, String> = BTreeMap::new();
  let mut keyparts: Vec<String> = vec![];
  let mut ok_count = 0;
  let mut nontrivial = false;
  let mut had_define_from = false;
  v.evals = 0;
  for s in &c.stmts {
    v.evals += 1;
    let text = render(s);
    let rule = rule_name(s);
    // ---- what the property demands
    let defined = |n: usize| prev.contains_key(nm(n));
    let mutable = |n: usize| prev.get(nm(n)).map(|x| x.0).unwrap_or(false);
    let (targets, demand): (Vec<String>, Demand) = match s {
      St::Define { name, .. } | St::DefineAnnotated { name, .. } | St::DefineExpr { name, .. } | St::DefineIndex { name, .. } | St::UseUndefined { name } | St::DefineFrom { name, .. } | St::DefineFromAnnotated { name, .. } => {
        let src_undefined = match s { St::DefineFrom { src, .. } | St::DefineFromAnnotated { src, .. } | St::DefineExpr { src, .. } | St::DefineIndex { src, .. } => !defined(*src), St::UseUndefined { .. } => true, _ => false };
        let d = if defined(*name) { Demand::MustErr("VariableAlreadyDefined") } else if src_undefined { Demand::MustErr("UndefinedVariable") } else { Demand::Open };
        (vec![nm(*name).to_string()], d)
      }
      St::Assign { name, .. } | St::IndexAssign { name, .. } | St::RangeAssign { name, .. } | St::OpAssign { name, .. } | St::OpAssignFrom { name, .. } | St::FieldAssign { name, .. } | St::AssignFrom { name, .. } => {
        let d = if !defined(*name) { Demand::MustErr("UndefinedVariable") } else if !mutable(*name) { Demand::MustErr("NotMutable") } else if let St::AssignFrom { src, .. } | St::OpAssignFrom { src, .. } = s { if !defined(*src) { Demand::MustErr("UndefinedVariable") } else { Demand::Open } } else { Demand::Open };
        (vec![nm(*name).to_string()], d)
      }
      St::Destructure { names, from, .. } => {
        let d = if names.iter().any(|n| defined(*n)) { Demand::MustErr("VariableAlreadyDefined") } else if from.map(|f| !defined(f)).unwrap_or(false) { Demand::MustErr("UndefinedVariable") } else { Demand::Open };
        (names.iter().map(|n| nm(*n).to_string()).collect(), d)
      }
    };
    let out = sess.run(&text);
    if let Outcome::NotCode | Outcome::ParseErr(_) = out { v.harness(format!("`{}` did not parse as code: {}", text, out.show())); return v; }
    if let Outcome::Panic(m) = &out { v.fail(format!("C05|panic-escaped|{}", rule), format!("`{}`: {}", text, m)); return v; }
    let now = observe(&sess);
    let family = match s { St::Define { val, .. } | St::DefineAnnotated { val, .. } | St::Assign { val, .. } => val.family(), _ => "-" };
    if let St::Define { val: Val::KS(k, _), .. } | St::Define { val: Val::KV(k, _, _), .. } | St::DefineAnnotated { val: Val::KS(k, _), .. } | St::DefineAnnotated { val: Val::KV(k, _, _), .. } | St::Assign { val: Val::KS(k, _), .. } | St::Assign { val: Val::KV(k, _, _), .. } = s { v.label(format!("kind:{}:{}", ALL_KINDS[*k as usize % 14].name(), if out.is_ok() { "ok" } else { "err" })); }
    v.label(format!("rule:{}:{}", rule, if out.is_ok() { "ok" } else { "err" }));
    if keyparts.len() < 8 { keyparts.push(format!("{}:{}:{}", rule, family, out.class())); }
    let nev = v.evals as usize;
    let history = || c.stmts.iter().take(nev).map(render).collect::<Vec<_>>().join("; ");
    match &out {
      Outcome::Err(kind) => {
        if ok_count >= 2 { nontrivial = true; }
        // (1) named errors carry the named kind
        if let Demand::MustErr(want) = demand {
          // several named reasons can apply at once (e.g. undefined source *and* defined target): accept any named kind
          let named = ["VariableAlreadyDefined", "UndefinedVariable", "NotMutable"];
          if !named.contains(&kind.as_str()) && kind != want { v.label(format!("named-error-other-kind:{}>{}", want, kind)); }
        }
        // (2) a failing statement changes nothing
        let d = diff(&prev, &now);
        if !d.is_empty() {
          v.fail(format!("C05|failed-statement-changed-bindings|{}|{}", rule, family_of_change(s, &prev)), format!("`{}` failed ({}) but bindings changed: {} — history: {}", text, out.show(), d.join(", "), history()));
          return v;
        }
      }
      Outcome::Ok(_) => {
        ok_count += 1;
        if let Demand::MustErr(want) = demand {
          v.fail(format!("C05|invalid-accepted|{}|{}", want, rule), format!("`{}` must be rejected ({}) but succeeded; bindings now: {} — history: {}", text, want, diff(&prev, &now).join(", "), history()));
          return v;
        }
        // (3) only the target name(s) may differ
        for (k, before) in &prev {
          if targets.contains(k) { continue; }
          match now.get(k) {
            None => { v.fail(format!("C05|binding-lost|{}", rule), format!("`{}` removed `{}` — history: {}", text, k, history())); return v; }
            Some(after) if after != before => {
              let how = derived.get(k).cloned().or_else(|| targets.iter().find_map(|t| derived.get(t).cloned())).unwrap_or_else(|| "no-shared-origin".to_string());
              let sig = if how == "no-shared-origin" { format!("C05|other-binding-changed|{}|{}", rule, how) } else { format!("C05|alias|{}|{}", how, rule) };
              v.fail(sig, format!("`{}` targets {:?} but `{}` changed: {}{} → {}{} — history: {}", text, targets, k, if before.0 { "~" } else { "" }, before.1.show(), if after.0 { "~" } else { "" }, after.1.show(), history()));
              return v;
            }
            _ => {}
          }
        }
        for k in now.keys() { if !prev.contains_key(k) && !targets.contains(k) { v.fail(format!("C05|unexpected-binding|{}", rule), format!("`{}` defined `{}` — history: {}", text, k, history())); return v; } }
        // model-computable values
        match s {
          St::Define { name, mutable, .. } | St::DefineAnnotated { name, mutable, .. } | St::DefineFrom { name, mutable, .. } | St::DefineFromAnnotated { name, mutable, .. } => {
            let got = now.get(nm(*name));
            match (s, got) {
              (_, None) => { v.fail(format!("C05|define-did-not-bind|{}", rule), format!("`{}` succeeded but `{}` is undefined", text, nm(*name))); return v; }
              (St::DefineFromAnnotated { src, ann: Some(a), .. }, Some(g)) => {
                // same-kind annotation: the value is the source's value, in a cell of its own (no shared origin is recorded:
                // a later change of one name through the other is an isolation failure, not the listed aliasing finding)
                let want = &prev[nm(*src)].1;
                let same_kind = matches!(want, RVal::S(sc) if sc.kind() == *a);
                if same_kind && g.1 != *want { v.fail(format!("C05|define-from-value|{}", rule), format!("`{}`: {} = {} but {} = {}", text, nm(*name), g.1.show(), nm(*src), want.show())); return v; }
                if g.0 != *mutable { v.fail(format!("C05|mutability-flag|{}", rule), format!("`{}`: mutability of {} is {}", text, nm(*name), g.0)); return v; }
                if same_kind { had_define_from = true; v.label("def-from-annotated:same-kind"); } else { v.label("def-from-annotated:other-kind"); }
              }
              (St::DefineFrom { src, .. }, Some(g)) => {
                let want = &prev[nm(*src)].1;
                if g.1 != *want { v.fail(format!("C05|define-from-value|{}", rule), format!("`{}`: {} = {} but {} = {}", text, nm(*name), g.1.show(), nm(*src), want.show())); return v; }
                if g.0 != *mutable { v.fail(format!("C05|mutability-flag|{}", rule), format!("`{}`: mutability of {} is {}", text, nm(*name), g.0)); return v; }
                had_define_from = true;
                let root = derived.get(nm(*src)).cloned().unwrap_or_else(|| "define-from-name".to_string());
                derived.insert(nm(*name).to_string(), root.clone());
                derived.entry(nm(*src).to_string()).or_insert(root);
              }
              (_, Some(g)) => { if g.0 != *mutable { v.fail(format!("C05|mutability-flag|{}", rule), format!("`{}`: mutability of {} is {}", text, nm(*name), g.0)); return v; } }
            }
            if !*mutable { if let Some(g) = now.get(nm(*name)) { immut_def.insert(nm(*name).to_string(), g.1.clone()); } }
          }
          St::DefineExpr { name, mutable, .. } => { if !*mutable { if let Some(g) = now.get(nm(*name)) { immut_def.insert(nm(*name).to_string(), g.1.clone()); } } }
          St::DefineIndex { name, .. } => { if let Some(g) = now.get(nm(*name)) { immut_def.insert(nm(*name).to_string(), g.1.clone()); } }
          St::AssignFrom { name, src } => {
            let root = derived.get(nm(*src)).cloned().unwrap_or_else(|| "assign-from-name".to_string());
            derived.insert(nm(*name).to_string(), root.clone());
            derived.entry(nm(*src).to_string()).or_insert(root);
            had_define_from = true;
          }
          St::Destructure { names, from, .. } => {
            if let Some(f) = from { for n in names { derived.insert(nm(*n).to_string(), "destructure-from-name".to_string()); } derived.entry(nm(*f).to_string()).or_insert("destructure-from-name".to_string()); had_define_from = true; }
          }
          St::Assign { .. } | St::IndexAssign { .. } | St::RangeAssign { .. } | St::OpAssign { .. } | St::FieldAssign { .. } => { if had_define_from { nontrivial = true; } }
          St::OpAssignFrom { name, src, .. } => { if name != src { nontrivial = true; } }
          _ => {}
        }
      }
      _ => unreachable!(),
    }
    // every name defined without `~` still has the value it was defined with
    for (k, want) in &immut_def {
      if let Some(g) = now.get(k) { if g.1 != *want { v.fail(format!("C05|immutable-changed|{}", rule), format!("after `{}` immutable `{}` is {} (defined as {}) — history: {}", text, k, g.1.show(), want.show(), history())); return v; } }
    }
    prev = now;
  }
  if nontrivial { v.key = Some(keyparts.join(",")); }
  v
}

fn family_of_change(s: &St, prev: &Store) -> String {
  match s {
    St::Destructure { .. } => "destructure".into(),
    St::IndexAssign { name, .. } | St::RangeAssign { name, .. } | St::OpAssign { name, .. } | St::OpAssignFrom { name, .. } | St::Assign { name, .. } | St::FieldAssign { name, .. } => prev.get(nm(*name)).map(|x| x.1.kind()).unwrap_or_else(|| "-".into()).chars().take(12).collect(),
    _ => "-".into(),
  }
}
