//! C06 Compiled bytecode computes what the interpreter computed.

use crate::engine::*;
use crate::mech::*;
use crate::progs::{self, Opts, Program};
use crate::props::c19::choices_s;
use crate::rval::*;
use mech_core::*;
use mech_interpreter::*;
use proptest::prelude::*;
use serde::{Deserialize, Serialize};
use std::panic::{catch_unwind, AssertUnwindSafe};

pub struct C06;

#[derive(Clone, Debug, Serialize, Deserialize)]
pub struct Case { pub choices: Vec<u32>, pub mutate: bool, pub noncore: bool, #[serde(default)] pub trailing_other: bool }

pub fn program(c: &Case) -> Program { progs::build(&c.choices, Opts { allow_mutation: c.mutate, allow_noncore: c.noncore, max_stmts: 12, trailing_other: c.trailing_other }) }

/// the feature a failure is attributed to (most exotic first)
pub fn culprit_feature(p: &Program) -> String {
  for f in ["tuple", "record", "table", "set", "comprehension", "user-function", "stats/sum/row", "stats/sum/column", "matrix/transpose", "stdlib-call", "transpose", "string", "typed-matrix", "typed-scalar", "negate-matrix", "negate-scalar", "assignment", "indexing", "range", "logic", "comparison", "arithmetic", "four-row-vertcat"] {
    if p.features.iter().any(|x| x == f) { return f.to_string(); }
  }
  "literals".into()
}

impl Prop for C06 {
  type Case = Case;
  const ID: &'static str = "C06";
  fn budget(t: Tier) -> u32 { t.pick(10_000, 120_000) }
  fn strategy(_t: Tier, k: &Known) -> BoxedStrategy<Case> {
    // exclusion switch: tuple values make compile() overflow the stack (listed finding) — the non-core half of the generator then draws
    // tuples rarely, by remapping that choice
    let avoid_tuple = k.has("C06|hang|tuple") || k.has("C06|crash:signal6|tuple") || k.has("C06|crash:signal11|tuple");
    (choices_s(80), any::<bool>(), any::<bool>(), 0u8..40).prop_map(move |(mut choices, mutate, noncore, dice)| {
      if avoid_tuple && noncore && dice != 0 {
        // statement selectors are the choices consumed by `pick(22)`; remapping every value ≡ 18 (mod 22) is harmless for other uses
        for c in choices.iter_mut() { if *c % 22 == 18 { *c += 1; } }
      }
      Case { choices, mutate, noncore, trailing_other: false }
    }).boxed()
  }
  fn stack_mb() -> usize { 32 }
  fn timeout_ms(_t: Tier) -> u64 { 6_000 }
  fn timeout_is_violation() -> bool { true }
  fn crash_sig(c: &Case, what: &str) -> String { format!("C06|{}|{}", what, culprit_feature(&program(c))) }
  fn rule() -> &'static str {
    "case = a program from the shared typed generator, half of them restricted to the core class (literals, variables, operators, ranges, \
     indexing, assignment over numeric/bool/string values), half with sets, tables, tuples, records, stdlib calls, user functions, \
     comprehensions. Pipeline under crash supervision: interpret → compile → ParsedProgram::from_bytes → run_program in a FRESH \
     interpreter → (programs without assignment) step(0,1). Non-trivial = program contains a non-commutative operator with distinct \
     operands or an indexing/assignment step and reached the run stage; distinct key = sorted plan-step struct names."
  }
  fn assumptions() -> Vec<String> { vec!["which error a failing stage reports is not compared".into(), "programs the interpreter rejects are discarded and counted".into()] }
  fn describe(c: &Case) -> String { program(c).lines.join("; ") }
  fn check(c: &Case, _cx: &Cx) -> Verdict { check(c) }
}

pub enum Stage { Discard(String), CompileErr(String), CompilePanic(String), Bytes(Vec<u8>, RVal, Vec<String>) }

/// interpret + compile in one interpreter
pub fn compile_program(src: &str) -> Stage {
  let mut sess = Session::new();
  let r1 = match sess.run(src) { Outcome::Ok(v) => v, other => return Stage::Discard(other.show()) };
  let names = sess.plan_names();
  match catch_unwind(AssertUnwindSafe(|| sess.intrp.compile())) {
    Err(e) => Stage::CompilePanic(panic_msg(e)),
    Ok(Err(e)) => Stage::CompileErr(e.kind_name()),
    Ok(Ok(bytes)) => Stage::Bytes(bytes, r1, names),
  }
}

fn check(c: &Case) -> Verdict {
  let mut v = Verdict::new();
  let p = program(c);
  let src = p.source();
  let feat = culprit_feature(&p);
  v.label(if p.core { "class:core" } else { "class:non-core" });
  for f in &p.features { v.label(format!("feature:{}", f)); }
  let (bytes, r1, names) = match compile_program(&src) {
    Stage::Discard(why) => { v.discard(format!("interpret rejected: {}", why.chars().take(40).collect::<String>())); return v; }
    Stage::CompilePanic(m) => { v.fail(format!("C06|compile-panic|{}", panic_key(&m)), format!("compile() panicked: {} (program features: {})\n{}", m, feat, src)); return v; }
    Stage::CompileErr(k) => {
      v.label(format!("compile-error:{}", k));
      if p.core { v.fail(format!("C06|core-compile-rejected|{}|{}", feat, k), format!("core-class program failed to compile: {}\n{}", k, src)); }
      return v;
    }
    Stage::Bytes(b, r, n) => (b, r, n),
  };
  let prog = match catch_unwind(AssertUnwindSafe(|| ParsedProgram::from_bytes(&bytes))) {
    Err(e) => { v.fail(format!("C06|load-panic|{}", feat), format!("from_bytes panicked on compiler output: {}\n{}", panic_msg(e), src)); return v; }
    Ok(Err(e)) => { v.fail(format!("C06|emitted-bytes-rejected|{}|{}", feat, e.kind_name()), format!("the loader rejects the compiler's own output: {}\n{}", e.kind_name(), src)); return v; }
    Ok(Ok(pg)) => pg,
  };
  let mut fresh = Interpreter::new(1);
  let run = catch_unwind(AssertUnwindSafe(|| fresh.run_program(&prog)));
  let mut kinds = names.clone(); kinds.sort(); kinds.dedup();
  match run {
    Err(e) => { let m = panic_msg(e); v.fail(format!("C06|run-panic|{}", panic_key(&m)), format!("run_program panicked: {} (program features: {})\n{}", m, feat, src)); }
    Ok(Err(e)) => {
      v.label(format!("run-error:{}", e.kind_name()));
      if p.core && std::env::var("C06_LEARN").is_ok() { v.label(format!("unregistered:{}|{}", e.kind_name(), culprit_steps(&p, &e.kind_message()))); return v; }
      if p.core { let cul = culprit_steps(&p, &e.kind_message()); v.fail(format!("C06|core-run-rejected|{}|{}", e.kind_name(), cul), format!("core-class program compiled but the bytecode does not run in a fresh interpreter: {} — the function emitted for plan step {} has no registered descriptor\n{}", e.kind_message(), cul, src)); }
    }
    Ok(Ok(val)) => {
      if p.order_sensitive { v.key = Some(kinds.join(",")); }
      let r2 = from_value(&val);
      if r2 != r1 { let feat = if p.features.iter().any(|f| f == "trailing-reference-to-earlier-variable") { "trailing-reference-to-earlier-variable".to_string() } else { feat.clone() }; v.fail(format!("C06|different-result|{}", feat), format!("interpreter: {}  bytecode in a fresh interpreter: {}\n{}", r1.show(), r2.show(), src)); return v; }
      if !p.mutating {
        match catch_unwind(AssertUnwindSafe(|| fresh.step(0, 1))) {
          Err(e) => v.fail(format!("C06|re-solve-panic|{}", feat), format!("re-solving the loaded plan panicked: {}\n{}", panic_msg(e), src)),
          Ok(Err(e)) => v.label(format!("re-solve-error:{}", e.kind_name())),
          Ok(Ok(val2)) => { let r3 = from_value(&val2); if r3 != r1 { v.fail(format!("C06|re-solve-different|{}", feat), format!("after re-solving the loaded plan once: {} (interpreter: {})\n{}", r3.show(), r1.show(), src)); } }
        }
      }
    }
  }
  v
}

/// a panic is keyed by its message with numbers removed: that names the panic site (the root cause), not the program that reached it
fn panic_key(m: &str) -> String {
  let t: String = m.chars().map(|c| if c.is_ascii_digit() { '#' } else { c }).collect();
  let mut out = String::new(); let mut prev = ' ';
  for c in t.chars() { if c == '#' && prev == '#' { continue; } out.push(c); prev = c; }
  out.chars().take(72).collect()
}

/// Name of the plan step whose emitted function id is the one the fresh interpreter does not know.
/// (`msg` is the error's message, which carries the id.) Attribution only — never part of a pass/fail decision.
fn culprit_steps(p: &Program, msg: &str) -> String {
  let id: Option<u64> = msg.rsplit(|c: char| !c.is_ascii_digit()).find(|t| !t.is_empty()).and_then(|t| t.parse().ok());
  let mut sess = Session::new();
  if !sess.run(&p.source()).is_ok() { return "not-localised".into(); }
  let plan = sess.intrp.plan();
  let plan = plan.borrow();
  let mut ctx = CompileCtx::new();
  for step in plan.iter() {
    let before = ctx.instrs.len();
    let name = step_name(&step.to_string());
    if step.compile(&mut ctx).is_err() { continue; }
    for ins in &ctx.instrs[before..] {
      let fid = match ins { EncodedInstr::NullOp { fxn_id, .. } | EncodedInstr::UnOp { fxn_id, .. } | EncodedInstr::BinOp { fxn_id, .. } | EncodedInstr::TernOp { fxn_id, .. } | EncodedInstr::QuadOp { fxn_id, .. } | EncodedInstr::VarArg { fxn_id, .. } => Some(*fxn_id), _ => None };
      if fid.is_some() && fid == id { return name; }
    }
  }
  "not-localised".into()
}
