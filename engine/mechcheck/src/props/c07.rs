//! C07 Bytecode files round-trip exactly and corrupted files are rejected.

use crate::engine::*;
use crate::mech::*;
use crate::progs::{self, Opts};
use crate::props::c06::{compile_program, Stage};
use crate::props::c19::choices_s;
use crate::rval::*;
use mech_core::*;
use proptest::prelude::*;
use serde::{Deserialize, Serialize};
use std::panic::{catch_unwind, AssertUnwindSafe};

pub struct C07;

/// header fields: (name, byte offset, width)
pub const FIELDS: [(&str, usize, usize); 22] = [
  ("magic", 0, 4), ("version", 4, 1), ("mech_ver", 5, 2), ("flags", 7, 2), ("reg_count", 9, 4), ("instr_count", 13, 4),
  ("feature_count", 17, 4), ("feature_off", 21, 8), ("types_count", 29, 4), ("types_off", 33, 8),
  ("const_count", 41, 4), ("const_tbl_off", 45, 8), ("const_tbl_len", 53, 8), ("const_blob_off", 61, 8), ("const_blob_len", 69, 8),
  ("symbols_len", 77, 8), ("symbols_off", 85, 8), ("instr_off", 93, 8), ("instr_len", 101, 8), ("dict_off", 109, 8), ("dict_len", 117, 8), ("reserved", 125, 4),
];

#[derive(Clone, Debug, Serialize, Deserialize)]
pub enum Mut {
  /// header field set to a special value (index into the special-value list), CRC recomputed
  Field { field: u8, special: u8 },
  /// one byte at a relative position replaced, CRC recomputed
  Byte { pos: u32, val: u8 },
  /// a u32 at a relative 4-byte-aligned position inside the body replaced by a special value, CRC recomputed
  Word { pos: u32, special: u8 },
  /// a chunk duplicated / removed / swapped with another, CRC recomputed
  Chunk { a: u32, b: u32, len: u16, op: u8 },
}

#[derive(Clone, Debug, Serialize, Deserialize)]
pub enum Case {
  /// round trip + every truncation + bit-flip stripe + bursts + random byte strings (none of them CRC-fixed)
  Sweep { choices: Vec<u32>, noncore: bool, flips: Vec<(u32, u8)>, bursts: Vec<(u32, u8, u32)>, randoms: Vec<(u16, u64, bool)> },
  /// one CRC-valid hostile file
  Mutant { choices: Vec<u32>, noncore: bool, m: Mut },
  /// CRC-valid file made of arbitrary bytes after a plausible header
  Forged { len: u16, seed: u64, keep_header_from: Vec<u32> },
  /// literal file contents (hex), as saved by a fuzzing campaign or written by hand; `seal` recomputes the CRC-32 trailer first
  Raw { hex: String, seal: bool },
}

fn specials(len: u64) -> Vec<u64> { vec![0, 1, len, len.wrapping_add(1), len.wrapping_sub(1), len / 2, 1 << 31, (1u64 << 32) - 1, 1 << 32, 1 << 63, u64::MAX, u64::MAX - 3, 0x7fff_ffff_ffff_ffff, 12, 13] }

impl Prop for C07 {
  type Case = Case;
  const ID: &'static str = "C07";
  fn max_shrink_iters() -> u32 { 1000 }
  fn budget(t: Tier) -> u32 { t.pick(6_000, 120_000) }
  fn timeout_ms(_t: Tier) -> u64 { 40_000 } // the slowest terminating case met so far needs 6.8 s of CPU alone (a chunk-swapped image, seed 1); 10 s was too close under load
  fn timeout_is_violation() -> bool { true }
  fn rlimit_as_mb() -> u64 { 2048 }
  fn stack_mb() -> usize { 64 }
  fn strategy(_t: Tier, _k: &Known) -> BoxedStrategy<Case> {
    let sweep = (choices_s(60), any::<bool>(), proptest::collection::vec((any::<u32>(), 0u8..8), 40), proptest::collection::vec((any::<u32>(), 2u8..=32, any::<u32>()), 20), proptest::collection::vec((0u16..512, any::<u64>(), any::<bool>()), 8))
      .prop_map(|(choices, noncore, flips, bursts, randoms)| Case::Sweep { choices, noncore, flips, bursts, randoms }).boxed();
    let m = prop_oneof![
      4 => (0u8..22, 0u8..15).prop_map(|(field, special)| Mut::Field { field, special }),
      3 => (any::<u32>(), any::<u8>()).prop_map(|(pos, val)| Mut::Byte { pos, val }),
      3 => (any::<u32>(), 0u8..15).prop_map(|(pos, special)| Mut::Word { pos, special }),
      1 => (any::<u32>(), any::<u32>(), 1u16..64, 0u8..3).prop_map(|(a, b, len, op)| Mut::Chunk { a, b, len, op }),
    ];
    let mutant = (choices_s(60), any::<bool>(), m).prop_map(|(choices, noncore, m)| Case::Mutant { choices, noncore, m }).boxed();
    let forged = (140u16..600, any::<u64>(), choices_s(20)).prop_map(|(len, seed, keep_header_from)| Case::Forged { len, seed, keep_header_from }).boxed();
    prop_oneof![1 => sweep, 12 => mutant, 1 => forged].boxed()
  }
  fn fixed_cases(_t: Tier) -> Vec<Case> {
    // every header field x every special value on one small program
    let mut out = vec![];
    for f in 0..22u8 { for s in 0..15u8 { out.push(Case::Mutant { choices: vec![4, 0, 2, 1, 2, 3, 4, 6, 0, 1], noncore: false, m: Mut::Field { field: f, special: s } }); } }
    out
  }
  fn crash_sig(c: &Case, what: &str) -> String {
    match c { Case::Mutant { choices, noncore, .. } if what == "hang" && base_program(choices, *noncore).features.iter().any(|f| f == "set" || f == "comprehension") => "C07|hang|set-constant".to_string(),
      Case::Mutant { choices, noncore, m } => { let l = locate(choices, *noncore, m); let coarse = if let Some(p) = l.find('@') { l[p + 1..].split('=').next().unwrap_or("").to_string() } else if l.starts_with("chunk") { "chunk".to_string() } else { l }; format!("C07|{}|{}", what, coarse) } Case::Sweep { .. } => format!("C07|{}|uncorrected-fault", what), Case::Forged { .. } => format!("C07|{}|forged", what), Case::Raw { .. } => format!("C07|{}|raw", what) }
  }
  fn rule() -> &'static str {
    "case ∈ {Sweep: a compiler-emitted file (program from the shared generator) → round trip, EVERY truncation length, a stripe of single-bit \
     flips plus 40 random ones, 20 random bursts of 2-32 bits, 8 random byte strings — all must be rejected; Mutant: the same file with one \
     structural mutation and the CRC-32 trailer recomputed (every header field x 15 special values enumerated, random byte / aligned word \
     edits in every section, chunk duplicate/delete/swap) — must return Ok or Err without panic, abort, hang or unbounded allocation \
     (worker address space limited to 2 GiB); Forged: a CRC-valid file of arbitrary bytes behind a real header}. evaluations counts loader \
     calls. Non-trivial = a fault inside a section (not the trailer) or a CRC-valid mutant that passes the checksum gate; distinct key = \
     (fault class, field/section, outcome kind)."
  }
  fn assumptions() -> Vec<String> { vec!["run_program on hostile files is not part of this property (loader and constant decoder only)".into(), "an allocation failure or stack overflow kills the worker process; the supervisor attributes it to the case that was running".into()] }
  fn describe(c: &Case) -> String {
    match c {
      Case::Sweep { choices, noncore, .. } => format!("sweep over bytecode of: {}", base_program(choices, *noncore).lines.join("; ")),
      Case::Mutant { choices, noncore, m } => format!("{:?} ({}) on bytecode of: {}", m, locate(choices, *noncore, m), base_program(choices, *noncore).lines.join("; ")),
      Case::Forged { len, seed, .. } => format!("forged file len {} seed {}", len, seed),
      Case::Raw { hex, seal } => format!("raw file of {} bytes{}: {}", hex.len() / 2, if *seal { " (CRC re-sealed)" } else { "" }, hex.chars().take(200).collect::<String>()),
    }
  }
  fn check(c: &Case, _cx: &Cx) -> Verdict { check(c) }
}

fn base_program(choices: &[u32], noncore: bool) -> progs::Program { progs::build(choices, Opts { allow_mutation: true, allow_noncore: noncore, max_stmts: 10, trailing_other: false }) }

/// bytes the real compiler emits for the program (None: the program does not compile — e.g. tuples — or is rejected)
pub fn base_bytes(choices: &[u32], noncore: bool) -> Option<Vec<u8>> {
  let p = base_program(choices, noncore);
  if p.features.iter().any(|f| f == "tuple") { return None; } // compile() hangs on tuples (C06 finding)
  match compile_program(&p.source()) { Stage::Bytes(b, _, _) => Some(b), _ => None }
}

fn fix_crc(b: &mut Vec<u8>) {
  if b.len() < 4 { return; }
  let n = b.len() - 4;
  let c = crc32fast::hash(&b[..n]);
  b[n..].copy_from_slice(&c.to_le_bytes());
}

fn section_of(b: &[u8], pos: usize) -> &'static str {
  if pos < 129 { return "header"; }
  let rd = |o: usize| u64::from_le_bytes(b[o..o + 8].try_into().unwrap()) as usize;
  let (fo, to, cto, ctl, cbo, cbl, so, io, il, d_o, dl) = (rd(21), rd(33), rd(45), rd(53), rd(61), rd(69), rd(85), rd(93), rd(101), rd(109), rd(117));
  if pos >= b.len() - 4 { "trailer" }
  else if dl > 0 && pos >= d_o && pos < d_o + dl { "dictionary" }
  else if il > 0 && pos >= io && pos < io + il { "instructions" }
  else if so > 0 && pos >= so && pos < io { "symbols" }
  else if cbl > 0 && pos >= cbo && pos < cbo + cbl { "const-blob" }
  else if ctl > 0 && pos >= cto && pos < cto + ctl { "const-table" }
  else if pos >= to && pos < cto { "types" }
  else if pos >= fo && pos < to { "features" }
  else { "gap" }
}

/// where a mutation lands (for signatures)
fn locate(choices: &[u32], noncore: bool, m: &Mut) -> String {
  match m {
    Mut::Field { field, special } => format!("header.{}={}", FIELDS[*field as usize % 22].0, ["0", "1", "len", "len+1", "len-1", "len/2", "2^31", "2^32-1", "2^32", "2^63", "2^64-1", "2^64-4", "2^63-1", "12", "13"][*special as usize % 15]),
    other => {
      let Some(b) = base_bytes(choices, noncore) else { return "no-base".into() };
      match other {
        Mut::Byte { pos, .. } => format!("byte@{}", section_of(&b, 129 + (*pos as usize) % (b.len() - 133).max(1))),
        Mut::Word { pos, special } => format!("word@{}={}", section_of(&b, word_pos(&b, *pos)), special % 15),
        Mut::Chunk { op, .. } => format!("chunk-{}", ["dup", "del", "swap"][*op as usize % 3]),
        _ => unreachable!(),
      }
    }
  }
}
fn word_pos(b: &[u8], pos: u32) -> usize { let body = (b.len() - 133).max(4); 129 + ((pos as usize) % body) / 4 * 4 }

fn apply(b: &[u8], m: &Mut) -> Vec<u8> {
  let mut out = b.to_vec();
  let len = b.len() as u64;
  match m {
    Mut::Field { field, special } => {
      let (_, off, w) = FIELDS[*field as usize % 22];
      let v = specials(len)[*special as usize % 15];
      out[off..off + w].copy_from_slice(&v.to_le_bytes()[..w]);
    }
    Mut::Byte { pos, val } => { let p = 129 + (*pos as usize) % (b.len() - 133).max(1); out[p] = if out[p] == *val { val.wrapping_add(1) } else { *val }; }
    Mut::Word { pos, special } => { let p = word_pos(b, *pos); if p + 4 <= out.len() - 4 { let v = specials(len)[*special as usize % 15] as u32; out[p..p + 4].copy_from_slice(&v.to_le_bytes()); } }
    Mut::Chunk { a, b: bb, len: l, op } => {
      let body = out.len() - 133; let l = (*l as usize).min(body / 2).max(1);
      let pa = 129 + (*a as usize) % (body - l).max(1); let pb = 129 + (*bb as usize) % (body - l).max(1);
      match op % 3 {
        0 => { let chunk: Vec<u8> = out[pa..pa + l].to_vec(); let at = pb.min(out.len() - 4); for (i, x) in chunk.into_iter().enumerate() { out.insert(at + i, x); } }
        1 => { out.drain(pa..pa + l); }
        _ => { for i in 0..l { out.swap(pa + i, pb + i); } }
      }
    }
  }
  fix_crc(&mut out);
  out
}

enum Load { Ok(ParsedProgram), Err(String), Panic(String) }
fn load(b: &[u8]) -> Load {
  match catch_unwind(AssertUnwindSafe(|| ParsedProgram::from_bytes(b))) { Err(e) => Load::Panic(panic_msg(e)), Ok(Err(e)) => Load::Err(e.kind_name()), Ok(Ok(p)) => Load::Ok(p) }
}

/// "allocates without bound": the largest single allocation request made while loading / decoding a file must stay within a bound that
/// is linear in the file size (64 bytes requested per file byte, at least 16 MiB — emitted files need a few kB). A request above it is
/// driven by a length field, not by the data present.
fn alloc_bound(file_len: usize) -> usize { (file_len * 64).max(16 << 20) }
fn load_probed(b: &[u8]) -> (Load, usize) { reset_alloc_probe(); let l = load(b); (l, largest_request()) }
fn hostile(v: &mut Verdict, b: &[u8], place: &str, what: &str) {
  v.evals += 1;
  let (l, req) = load_probed(b);
  if req > alloc_bound(b.len()) { v.fail(format!("C07|unbounded-allocation|load|{}", place.split('=').next().unwrap_or(place)), format!("from_bytes on a {}-byte {} ({}) requested a single allocation of {} bytes", b.len(), what, place, req)); return; }
  match l {
    Load::Err(k) => { v.label(format!("rejected:{}", k)); v.key = Some(format!("{}|{}|err:{}", what, place, k)); }
    Load::Panic(msg) => { v.fail(format!("C07|panic|load|{}", norm(&msg)), format!("from_bytes panicked on a {} ({}): {}", what, place, msg)); }
    Load::Ok(pg) => {
      reset_alloc_probe();
      let r = exercise(&pg);
      let req = largest_request();
      if req > alloc_bound(b.len()) { v.fail(format!("C07|unbounded-allocation|post-load|{}", place.split('=').next().unwrap_or(place)), format!("decoding a loaded {}-byte {} ({}) requested a single allocation of {} bytes", b.len(), what, place, req)); return; }
      match r {
        Ok(s) => { v.label(format!("accepted:{}", s)); v.key = Some(format!("{}|{}|ok|{}", what, place, s)); }
        Err(msg) => { v.fail(format!("C07|panic|post-load|{}", norm(&msg)), format!("{} ({}) loaded, then: {}", what, place, msg)); }
      }
    }
  }
}

/// totality of everything reachable from a successfully loaded (possibly hostile) program
fn exercise(p: &ParsedProgram) -> Result<String, String> {
  let d = catch_unwind(AssertUnwindSafe(|| p.decode_const_entries())).map_err(|e| format!("decode_const_entries panicked: {}", panic_msg(e)))?;
  let t = catch_unwind(AssertUnwindSafe(|| p.to_bytes())).map_err(|e| format!("to_bytes panicked: {}", panic_msg(e)))?;
  let _ = catch_unwind(AssertUnwindSafe(|| p.validate())).map_err(|e| format!("validate panicked: {}", panic_msg(e)))?;
  Ok(format!("decode:{} encode:{}", if d.is_ok() { "ok" } else { "err" }, if t.is_ok() { "ok" } else { "err" }))
}

fn instr_text_enc(i: &EncodedInstr) -> String { format!("{:?}", i) }

fn check(c: &Case) -> Verdict {
  let mut v = Verdict::new();
  v.evals = 0;
  match c {
    Case::Sweep { choices, noncore, flips, bursts, randoms } => {
      v.label("class:sweep");
      let p = base_program(choices, *noncore);
      if p.features.iter().any(|f| f == "tuple") { v.discard("tuple programs do not compile (C06)"); return v; }
      // compile in a session we keep, to compare with the compiler context
      let mut sess = Session::new();
      if !sess.run(&p.source()).is_ok() { v.discard("interpret rejected"); return v; }
      let bytes = match catch_unwind(AssertUnwindSafe(|| sess.intrp.compile())) { Ok(Ok(b)) => b, _ => { v.discard("compile rejected"); return v; } };
      v.label(format!("size:{}", if bytes.len() < 512 { "<512" } else if bytes.len() < 1024 { "<1K" } else if bytes.len() < 2048 { "<2K" } else { "≥2K" }));
      // ---- (1) round trip
      v.evals += 1;
      let prog = match load(&bytes) { Load::Ok(p) => p, Load::Err(k) => { v.fail(format!("C07|emitted-file-rejected|{}", k), format!("loader rejects compiler output: {}\n{}", k, p.source())); return v; } Load::Panic(m) => { v.fail("C07|panic|emitted-file", m); return v; } };
      match prog.to_bytes() {
        Ok(b2) => if b2 != bytes {
          let first = bytes.iter().zip(b2.iter()).position(|(a, b)| a != b).unwrap_or(bytes.len().min(b2.len()));
          let sec = section_of(&bytes, first.min(bytes.len() - 1));
          let what = instr_kinds(&prog);
          v.fail(format!("C07|re-encode-differs|{}|{}", sec, what), format!("to_bytes() of the decoded program differs from the emitted file at byte {} of {} (section {}); emitted len {}, re-encoded len {}\n{}", first, bytes.len(), sec, bytes.len(), b2.len(), p.source()));
          return v;
        },
        Err(e) => { v.fail("C07|re-encode-failed", format!("{}\n{}", e.kind_name(), p.source())); return v; }
      }
      // decoded structures vs what the compiler wrote
      if let Some(ctx) = &sess.intrp.context {
        if ctx.instrs.len() != prog.instrs.len() { v.fail("C07|decoded-instruction-count", format!("compiler wrote {} instructions, decoder returned {}\n{}", ctx.instrs.len(), prog.instrs.len(), p.source())); return v; }
        for (a, b) in ctx.instrs.iter().zip(prog.instrs.iter()) {
          if instr_text_enc(a) != format!("{:?}", b) { v.fail(format!("C07|decoded-instruction-differs|{}", format!("{:?}", b).split(' ').next().unwrap_or("")), format!("compiler wrote {:?}, decoder returned {:?}\n{}", a, b, p.source())); return v; }
        }
        if ctx.const_entries.len() != prog.const_entries.len() || ctx.const_blob != prog.const_blob { v.fail("C07|decoded-constants-differ", format!("constant table/blob differs from the compiler context\n{}", p.source())); return v; }
        for (a, b) in ctx.const_entries.iter().zip(prog.const_entries.iter()) {
          if (a.type_id, a.align, a.offset, a.length) != (b.type_id, b.align, b.offset, b.length) { v.fail("C07|decoded-constants-differ", format!("const entry {:?} vs {:?}\n{}", (a.type_id, a.align, a.offset, a.length), b, p.source())); return v; }
        }
        if prog.header.reg_count != ctx.next_reg as u32 || prog.header.instr_count as usize != ctx.instrs.len() || prog.header.const_count as usize != ctx.const_entries.len() { v.fail("C07|decoded-header-differs", format!("header {:?}\n{}", prog.header, p.source())); return v; }
      }
      match catch_unwind(AssertUnwindSafe(|| prog.decode_const_entries())) {
        Ok(Ok(consts)) => {
          // "decoding yields the same constants the compiler wrote": every value a user variable holds in the compiling interpreter
          // is one of the decoded constants (compile() emits one constant per value register)
          // (not for programs with a comprehension: evaluating one replaces the interpreter's plan, so compile() never sees the earlier statements)
          let decoded: Vec<RVal> = consts.iter().map(from_value).collect();
          let snap = if p.features.iter().any(|f| f == "comprehension") { Snapshot::new() } else { sess.snapshot() };
          for (name, val) in snap {
            if !decoded.contains(&val) {
              v.fail(format!("C07|decoded-constant-value|{}", val.kind().chars().take(16).collect::<String>()), format!("variable `{}` = {} in the compiling interpreter, but no decoded constant has that value (decoded: {})\n{}", name, val.show(), decoded.iter().map(|d| d.show()).collect::<Vec<_>>().join(" ; ").chars().take(400).collect::<String>(), p.source()));
              return v;
            }
          }
        }
        Ok(Err(e)) => { v.fail(format!("C07|emitted-constants-rejected|{}", e.kind_name()), p.source()); return v; } Err(e) => { v.fail("C07|panic|decode-emitted-constants", panic_msg(e)); return v; } }
      let mut keys = vec![format!("roundtrip|{}", instr_kinds(&prog))];
      // ---- (2) every truncation
      let n = bytes.len();
      for cut in 0..n {
        v.evals += 1;
        match load(&bytes[..cut]) { Load::Err(_) => {} Load::Ok(_) => { v.fail("C07|truncation-accepted", format!("file truncated to {} of {} bytes was accepted\n{}", cut, n, p.source())); return v; } Load::Panic(m) => { v.fail("C07|panic|truncation", format!("truncated to {}: {}", cut, m)); return v; } }
      }
      keys.push("truncations".into());
      // ---- (3) bit flips: stripe (every 7th bit) + random
      let nbits = n * 8;
      let mut flip = |bit: usize, v: &mut Verdict| -> bool {
        let mut b = bytes.clone(); b[bit / 8] ^= 1 << (bit % 8);
        v.evals += 1;
        match load(&b) { Load::Err(_) => true, Load::Ok(_) => { v.fail(format!("C07|bit-flip-accepted|{}", section_of(&bytes, bit / 8)), format!("flipping bit {} (byte {}, section {}) was accepted", bit, bit / 8, section_of(&bytes, bit / 8))); false } Load::Panic(m) => { v.fail(format!("C07|panic|bit-flip|{}", section_of(&bytes, bit / 8)), m); false } }
      };
      let mut bit = (choices.first().copied().unwrap_or(0) % 7) as usize;
      while bit < nbits { if !flip(bit, &mut v) { return v; } bit += 7; }
      for (pos, b) in flips { if !flip(((*pos as usize) % n) * 8 + *b as usize, &mut v) { return v; } keys.push(format!("flip|{}", section_of(&bytes, (*pos as usize) % n))); }
      // ---- (4) bursts of 2..=32 bits (pattern forced to touch first and last bit of the burst)
      for (pos, blen, pat) in bursts {
        let start = (*pos as usize) % (nbits - 32).max(1);
        let mut b = bytes.clone();
        let mask = (*pat as u64 | 1 | (1u64 << (*blen - 1))) & ((1u64 << *blen) - 1);
        for i in 0..*blen as usize { if (mask >> i) & 1 == 1 { let bit = start + i; b[bit / 8] ^= 1 << (bit % 8); } }
        v.evals += 1;
        match load(&b) { Load::Err(_) => {} Load::Ok(_) => { v.fail(format!("C07|burst-accepted|{}", section_of(&bytes, start / 8)), format!("burst of {} bits at bit {} was accepted", blen, start)); return v; } Load::Panic(m) => { v.fail("C07|panic|burst", m); return v; } }
      }
      keys.push("bursts".into());
      // ---- (5) random byte strings
      for (len, seed, magic) in randoms {
        let mut x = *seed | 1; let mut b: Vec<u8> = (0..*len).map(|_| { x ^= x << 13; x ^= x >> 7; x ^= x << 17; (x >> 24) as u8 }).collect();
        if *magic && b.len() >= 4 { b[..4].copy_from_slice(b"MECH"); }
        v.evals += 1;
        match load(&b) { Load::Err(_) => {} Load::Ok(pg) => { if let Err(m) = exercise(&pg) { v.fail("C07|panic|random-bytes-accepted", m); return v; } v.label("random-bytes-accepted"); } Load::Panic(m) => { v.fail("C07|panic|random-bytes", m); return v; } }
      }
      v.key = Some(keys.join(";"));
    }
    Case::Mutant { choices, noncore, m } => {
      v.label("class:mutant");
      let Some(base) = base_bytes(choices, *noncore) else { v.discard("no base file"); return v; };
      if base.len() < 140 { v.discard("tiny base"); return v; }
      let bytes = apply(&base, m);
      let place = locate(choices, *noncore, m);
      hostile(&mut v, &bytes, &place, "mutant");
    }
    Case::Forged { len, seed, keep_header_from } => {
      v.label("class:forged");
      let mut x = *seed | 1;
      let mut b: Vec<u8> = (0..*len).map(|_| { x ^= x << 13; x ^= x >> 7; x ^= x << 17; (x >> 24) as u8 }).collect();
      if let Some(base) = base_bytes(keep_header_from, false) { if base.len() >= 129 && b.len() >= 133 { b[..129].copy_from_slice(&base[..129]); } } else { b[..4].copy_from_slice(b"MECH"); }
      fix_crc(&mut b);
      hostile(&mut v, &b, "forged", "forged");
    }
    Case::Raw { hex, seal } => {
      v.label("class:raw");
      let mut b: Vec<u8> = (0..hex.len() / 2).filter_map(|i| u8::from_str_radix(&hex[2 * i..2 * i + 2], 16).ok()).collect();
      if *seal { fix_crc(&mut b); }
      hostile(&mut v, &b, "raw", "raw");
    }
  }
  v
}

fn instr_kinds(p: &ParsedProgram) -> String {
  let mut k: Vec<String> = p.instrs.iter().map(|i| format!("{:?}", i).split(|c: char| !c.is_alphanumeric()).next().unwrap_or("").to_string()).collect();
  k.sort(); k.dedup(); k.join("+")
}

/// panic message with numbers removed and truncated: names the panic *site*, not the input
fn norm(m: &str) -> String {
  let t: String = m.chars().map(|c| if c.is_ascii_digit() { '#' } else { c }).collect();
  let mut out = String::new();
  let mut prev = ' ';
  for c in t.chars() { if c == '#' && prev == '#' { continue; } out.push(c); prev = c; }
  out.chars().take(64).collect()
}
