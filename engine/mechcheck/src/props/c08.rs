//! C08 Formatting a program does not change what it means.

use crate::engine::*;
use crate::mech::*;
use crate::progs::{self, Opts};
use mech_syntax::formatter::Formatter;
use mech_syntax::parser;
use proptest::prelude::*;
use serde::{Deserialize, Serialize};
use serde_json::Value as J;
use std::panic::{catch_unwind, AssertUnwindSafe};

pub struct C08;

#[derive(Clone, Debug, Serialize, Deserialize)]
pub enum Case {
  /// snippet #i of corpus/snippets.json (the suite's own programs)
  Snippet(u32),
  /// .mec file #i of corpus/mec_files.json
  File(u32),
  /// constructs from the grammar generator (indices + parameters), joined into one program
  Gen(Vec<(u8, u32)>),
  /// program from the shared typed generator
  Prog(Vec<u32>),
  /// program from the recursive grammar generator (xgen): every syntactic form nested into every other, lexically varied literals
  Gram(Vec<u32>),
  /// Mechdown document from the grammar generator (title, sections, paragraphs with inline markup, lists, quotes, tables, fences ...)
  Doc(Vec<u32>),
  /// literal source text (hand-written regression cases, inputs saved by a fuzzing campaign)
  Text(String),
}

pub fn corpus(which: &str) -> &'static Vec<(String, String)> {
  static S: std::sync::OnceLock<Vec<(String, String)>> = std::sync::OnceLock::new();
  static F: std::sync::OnceLock<Vec<(String, String)>> = std::sync::OnceLock::new();
  let load = |name: &str| -> Vec<(String, String)> {
    let p = format!("{}/corpus/{}", verif_dir(), name);
    let j: J = std::fs::read_to_string(p).ok().and_then(|t| serde_json::from_str(&t).ok()).unwrap_or(J::Null);
    j.as_array().map(|a| a.iter().map(|e| (e["name"].as_str().unwrap_or("").to_string(), e["text"].as_str().unwrap_or("").to_string())).collect()).unwrap_or_default()
  };
  if which == "snippets" { S.get_or_init(|| load("snippets.json")) } else { F.get_or_init(|| load("mec_files.json")) }
}

// ------------------------------------------------------------------------------------------
// grammar generator: one source construct per (kind, parameter)

pub const NCONSTRUCTS: u8 = 40;

pub fn construct(kind: u8, p: u32) -> (&'static str, String) {
  let a = p % 7 + 1; let b = (p / 7) % 5 + 2; let c = (p / 35) % 4;
  let id = format!("q{}", p % 50);
  let sp = |n: u32| " ".repeat((n % 3) as usize + 1);
  match kind % NCONSTRUCTS {
    0 => ("int-literal", format!("{} := {}", id, a * 37)),
    1 => ("float-literal", format!("{} := {}.{}", id, a, b)),
    2 => ("sci-literal", format!("{} := {}.{}e{}", id, a, b, c)),
    3 => ("based-literal", format!("{} := {}", id, ["0x1F", "0b1010", "0o17", "0d99"][c as usize])),
    4 => ("rational-literal", format!("{} := {}/{}", id, a, b)),
    5 => ("complex-literal", format!("{} := {}+{}i", id, a, b)),
    6 => ("string-literal", format!("{} := \"{}\"", id, ["hello", "a b", "", "x,y"][c as usize])),
    7 => ("bool-atom-literal", format!("{} := {}", id, ["true", "false", ":red", "_"][c as usize])),
    8 => ("typed-literal", format!("{} := {}<{}>", id, a, ["u8", "i32", "f32", "u64"][c as usize])),
    9 => ("row-vector", format!("{} := [{}{}{}{}{}]", id, a, sp(p), b, sp(p / 3), a + b)),
    10 => ("column-vector", format!("{} := [{}; {}; {}]", id, a, b, a + b)),
    11 => ("matrix-semicolon", format!("{} := [{} {}; {} {}]", id, a, b, b, a)),
    12 => ("matrix-newline", format!("{} := [{} {}\n       {} {}]", id, a, b, b, a)),
    13 => ("matrix-3x2", format!("{} := [{} {}; {} {}; {} {}]", id, a, b, b, a, a + 1, b + 1)),
    14 => ("table-inline", format!("{} := | x<f64> y<f64> | {} {} | {} {} |", id, a, b, b, a)),
    15 => ("table-multiline", format!("{} := | x<u8>  y<string> |\n     | {}      \"a\"       |\n     | {}      \"b\"       |", id, a, b)),
    16 => ("record", format!("{} := {{x: {}, y: \"s\"}}", id, a)),
    17 => ("set", format!("{} := {{{}, {}, {}}}", id, a, b, a + b)),
    18 => ("tuple", format!("{} := ({}, \"t\", {})", id, a, b)),
    19 => ("map", format!("{} := {{\"a\": {}, \"b\": {}}}", id, a, b)),
    20 => ("arithmetic", format!("{} := {} {} {} {} {}", id, a, ["+", "-", "*", "/"][c as usize], b, ["*", "+", "^", "%"][(p / 3 % 4) as usize], a + 1)),
    21 => ("comparison-logic", format!("{} := {} {} {} {} {} {} {}", id, a, ["<", ">=", "==", "!="][c as usize], b, ["&&", "||", "⊕", "&&"][(p / 5 % 4) as usize], b, ["≤", "≥", "≠", "<="][(p / 11 % 4) as usize], a)),
    22 => ("unary-paren", format!("{} := -({} + {}) * {}", id, a, b, a)),
    23 => ("matmul-transpose", format!("{} := [{} {}; {} {}] ** [{} {}; {} {}]'", id, a, b, b, a, b, a, a, b)),
    24 => ("range", format!("{} := {}..{}", id, a, a + b)),
    25 => ("range-inclusive", format!("{} := {}..={}", id, a, a + b)),
    26 => ("range-step", format!("{} := {}..{}..{}", id, a, 2, a + 2 * b)),
    27 => ("range-step-inclusive", format!("{} := {}..{}..={}", id, a, 2, a + 2 * b)),
    28 => ("subscript", format!("m{} := [1 2 3; 4 5 6]\n{} := m{}[{}]", p % 50, id, p % 50, ["2", "1,2", ":,1", "1..=2", "[1 3]", "2,:"][(p % 6) as usize])),
    29 => ("call-positional", format!("{} := math/sin({}.5)", id, a)),
    30 => ("call-named", format!("{} := math/atan2(y: {}.0, x: {}.0)", id, a, b)),
    31 => ("typed-define", format!("{}<{}> := {}", id, ["u8", "f32", "[u8]", "[f64]:1,3"][c as usize], if c >= 2 { "[1 2 3]".to_string() } else { a.to_string() })),
    32 => ("mutable-assign", format!("~{} := [{} {} {}]\n{}[2] = {}\n{} {} 1", id, a, b, a, id, b, id, ["+=", "-=", "*=", "/="][c as usize])),
    33 => ("enum-define", format!("<shade{}> := :red<f64> | :green | :blue<f64>\nc{}<shade{}> := :red({})", p % 50, p % 50, p % 50, a * 100)),
    34 => ("function-arms", format!("f{}(x<f64>, y<f64>) => <f64>\n  ├ (0, *) => {}\n  ├ (*, 0) => {}\n  └ (a, b) => a + b.", p % 50, a, b)),
    35 => ("match-expression", format!("v{} := {}\n{}<f64> := v{}?\n  | {} => 10\n  | w, w > {} => 20\n  | * => 0.", p % 50, a, id, p % 50, a, b)),
    36 => ("state-machine", format!("#M{}(n<u64>) => <u64>\n  ├ :A(n<u64>)\n  └ :Done(out<u64>).\n\n#M{}(n<u64>) -> :A(n)\n  :A(n)\n    ├ n > {}u64 -> :A(n - 1u64)\n    └ * -> :Done(n)\n  :Done(out) => out.\n\n{} := #M{}({}u64)", p % 50, p % 50, c, id, p % 50, a)),
    37 => ("comprehension", format!("s{} := {{1, 2, 3}}\n{} := {{w * {} | w <- s{}, w > {}}}", p % 50, id, a, p % 50, c)),
    38 => ("comment", format!("{} := {} -- trailing words\n-- a whole line comment", id, a)),
    _ => ("prose", ["A Title\n=======\n\nSome paragraph text here.", "1. Section\n----------\n\nwords in a paragraph", "- item one\n- item two", "> a quote"][c as usize].to_string()),
  }
}

fn gen_text(v: &[(u8, u32)]) -> String { v.iter().map(|(k, p)| construct(*k, *p).1).collect::<Vec<_>>().join("\n\n") }

pub fn case_text(c: &Case) -> Option<String> {
  match c {
    Case::Snippet(i) => corpus("snippets").get(*i as usize).map(|x| x.1.clone()),
    Case::File(i) => corpus("files").get(*i as usize).map(|x| x.1.clone()),
    Case::Gen(v) => Some(gen_text(v)),
    Case::Prog(ch) => Some(progs::build(ch, Opts { allow_mutation: true, allow_noncore: true, max_stmts: 8, trailing_other: false }).source()),
    Case::Gram(ch) => Some(crate::xgen::program(ch).0),
    Case::Doc(ch) => Some(crate::xgen::document(ch).0),
    Case::Text(t) => Some(t.clone()),
  }
}

impl Prop for C08 {
  type Case = Case;
  const ID: &'static str = "C08";
  fn budget(t: Tier) -> u32 { t.pick(16_000, 300_000) }
  fn timeout_ms(_t: Tier) -> u64 { 60_000 }
  fn stack_mb() -> usize { 256 }
  fn strategy(_t: Tier, k: &Known) -> BoxedStrategy<Case> {
    // exclusion switch: construct kinds with a listed finding are left out of composites in 7 of 8 cases
    let known_kinds: Vec<u8> = (0..NCONSTRUCTS).filter(|i| k.has(&format!("C08|construct:{}|probe", construct(*i, 0).0))).collect();
    let single = (0..NCONSTRUCTS, any::<u32>()).prop_map(|(kk, p)| Case::Gen(vec![(kk, p)])).boxed();
    let composite = (proptest::collection::vec((0..NCONSTRUCTS, any::<u32>()), 2..=8), 0u8..8).prop_map(move |(v, dice)| {
      let v: Vec<(u8, u32)> = if dice == 0 { v } else { v.into_iter().filter(|(kk, _)| !known_kinds.contains(kk)).collect() };
      Case::Gen(if v.is_empty() { vec![(0, 1)] } else { v })
    }).boxed();
    let prog = proptest::collection::vec(0u32..100_000, 6..=60).prop_map(Case::Prog).boxed();
    let gram = proptest::collection::vec(0u32..1_000_000, 4..=80).prop_map(Case::Gram).boxed();
    let doc = proptest::collection::vec(0u32..1_000_000, 4..=60).prop_map(Case::Doc).boxed();
    prop_oneof![2 => single, 3 => composite, 1 => prog, 6 => gram, 3 => doc].boxed()
  }
  fn fixed_cases(_t: Tier) -> Vec<Case> {
    let mut out: Vec<Case> = (0..corpus("snippets").len() as u32).map(Case::Snippet).collect();
    out.extend((0..corpus("files").len() as u32).map(Case::File));
    for kk in 0..NCONSTRUCTS { for p in [0u32, 1, 13, 77, 1234] { out.push(Case::Gen(vec![(kk, p)])); } }
    out
  }
  fn rule() -> &'static str {
    "case ∈ {every program of the repository's own test suite (642 snippets) and every .mec file ≤20 kB (168), each as a fixed case; \
     single constructs from a 40-kind grammar generator (all literal forms, single/multi-row matrices written with ; and with newlines, \
     inline/multi-line tables, records, sets, tuples, maps, formulas with ASCII and Unicode operators, four range forms, subscript forms, \
     positional/named calls, typed defines, assignment/op-assignment, enums, function arms, match, state machines, comprehensions, \
     comments, Mechdown prose) with randomised parameters/layout; composites of 2-8 constructs; programs from the shared typed generator}. \
     Oracle (round trip): parse → format → parse; trees compared after deleting source ranges and whitespace tokens; format∘format \
     idempotent. Non-trivial = the tree has a node beyond a bare literal/identifier; distinct key = sorted construct kinds / node types."
  }
  fn assumptions() -> Vec<String> { vec!["texts that do not parse are discarded and counted (the property quantifies over programs that parse)".into(), "whitespace/newline tokens and source ranges are erased before comparing trees; operators compare as nodes, not glyphs".into()] }
  fn describe(c: &Case) -> String {
    match c { Case::Snippet(i) => format!("suite snippet {} `{}`: {}", i, corpus("snippets").get(*i as usize).map(|x| x.0.as_str()).unwrap_or("?"), case_text(c).unwrap_or_default().chars().take(300).collect::<String>()), Case::File(i) => format!("file {}", corpus("files").get(*i as usize).map(|x| x.0.as_str()).unwrap_or("?")), other => case_text(other).unwrap_or_default() }
  }
  fn check(c: &Case, _cx: &Cx) -> Verdict { check(c) }
}

/// serde form of the tree with positions and insignificant whitespace erased
pub fn canon(j: &J) -> J {
  match j {
    J::Object(m) => {
      // a Token: {kind, chars, src_range}
      if m.contains_key("chars") && m.contains_key("kind") {
        let text: String = m["chars"].as_array().map(|a| a.iter().filter_map(|c| c.as_str()).collect()).unwrap_or_default();
        let kind = m["kind"].as_str().unwrap_or("").to_string();
        return serde_json::json!({"tok": kind, "text": text});
      }
      let mut out = serde_json::Map::new();
      for (k, v) in m { if k == "src_range" { continue; } out.insert(k.clone(), canon(v)); }
      J::Object(out)
    }
    J::Array(a) => {
      let items: Vec<J> = a.iter().map(canon).filter(|x| !is_ws_token(x)).collect();
      J::Array(items)
    }
    other => other.clone(),
  }
}
fn is_ws_token(j: &J) -> bool {
  match j { J::Object(m) => m.get("tok").and_then(|k| k.as_str()).map(|k| matches!(k, "Space" | "Tab" | "Newline" | "Whitespace" | "CarriageReturn")).unwrap_or(false), _ => false }
}

/// path (in node/variant names) of the first difference between two canonical trees
thread_local! { pub static DIFF_VALUES: std::cell::RefCell<String> = std::cell::RefCell::new(String::new()); }
pub fn first_diff(a: &J, b: &J, path: &mut Vec<String>) -> Option<String> {
  match (a, b) {
    (J::Object(x), J::Object(y)) => {
      for (k, v) in x {
        match y.get(k) { None => return Some(format!("{}/-{}", path.join("/"), k)), Some(w) => { path.push(k.clone()); if let Some(d) = first_diff(v, w, path) { return Some(d); } path.pop(); } }
      }
      for k in y.keys() { if !x.contains_key(k) { return Some(format!("{}/+{}", path.join("/"), k)); } }
      None
    }
    (J::Array(x), J::Array(y)) => {
      for (i, (v, w)) in x.iter().zip(y.iter()).enumerate() { path.push(format!("[{}]", if i < 9 { "i".to_string() } else { "i".to_string() })); let _ = i; if let Some(d) = first_diff(v, w, path) { return Some(d); } path.pop(); }
      if x.len() != y.len() { return Some(format!("{}/len", path.join("/"))); }
      None
    }
    (x, y) => if x == y { None } else { DIFF_VALUES.with(|d| *d.borrow_mut() = format!("{} <> {}", x.to_string().chars().take(160).collect::<String>(), y.to_string().chars().take(160).collect::<String>())); Some(format!("{}/value", path.join("/"))) },
  }
}

fn node_path_sig(d: &str) -> String {
  // keep only variant / field names that look like node types (capitalised) plus the final component
  let parts: Vec<&str> = d.split('/').filter(|p| !p.is_empty() && *p != "[i]").collect();
  let caps: Vec<&str> = parts.iter().filter(|p| p.chars().next().map(|c| c.is_uppercase()).unwrap_or(false)).cloned().collect();
  let tail = parts.last().cloned().unwrap_or("");
  let mut keep: Vec<&str> = caps.iter().rev().take(3).rev().cloned().collect();
  keep.push(tail);
  keep.join(">")
}

pub enum Fmt { Discard(String), Fail(String, String), Ok(Vec<String>) }

pub fn round_trip(src: &str) -> Fmt {
  let t1 = match catch_unwind(AssertUnwindSafe(|| parser::parse(src))) { Ok(Ok(t)) => t, Ok(Err(_)) => return Fmt::Discard("does not parse".into()), Err(e) => return Fmt::Discard(format!("parser panic: {}", panic_msg(e).chars().take(30).collect::<String>())) };
  if has_error_node(&serde_json::to_value(&t1).unwrap_or(J::Null)) { return Fmt::Discard("tree contains an error placeholder".into()); }
  let f1 = match catch_unwind(AssertUnwindSafe(|| Formatter::new().format(&t1))) { Ok(s) => s, Err(e) => return Fmt::Fail("panic|format".into(), format!("Formatter::format panicked: {}", panic_msg(e))) };
  let t2 = match catch_unwind(AssertUnwindSafe(|| parser::parse(&f1))) {
    Ok(Ok(t)) => t,
    Ok(Err(_)) => { LOCAL_TEXT.with(|d| d.borrow_mut().clear()); let loc = localise_reparse(&t1); let lt = LOCAL_TEXT.with(|d| d.borrow().clone()); return Fmt::Fail(format!("reparse|{}", loc), format!("formatted text does not parse again; first element that fails on its own:\n{}\n--- formatted ---\n{}", lt, f1)) },
    Err(e) => return Fmt::Fail("panic|reparse".into(), format!("parsing the formatted text panicked: {}\n{}", panic_msg(e), f1)),
  };
  let (j1, j2) = (serde_json::to_value(&t1).unwrap_or(J::Null), serde_json::to_value(&t2).unwrap_or(J::Null));
  // a tree with recovery placeholders (MechCode::Error, SectionElement::Error, ParagraphElement::Error) is the parser's way of saying
  // "this part did not parse": such a document is outside the property's domain
  let (c1, c2) = (canon(&j1), canon(&j2));
  if c1 != c2 {
    DIFF_VALUES.with(|d| d.borrow_mut().clear());
    let d = first_diff(&c1, &c2, &mut vec![]).unwrap_or_default();
    let vals = DIFF_VALUES.with(|d| d.borrow().clone());
    return Fmt::Fail(format!("tree-diff|{}", node_path_sig(&d)), format!("tree differs at {} ({})\n--- formatted ---\n{}", d, vals, f1));
  }
  let f2 = match catch_unwind(AssertUnwindSafe(|| Formatter::new().format(&t2))) { Ok(s) => s, Err(e) => return Fmt::Fail("panic|format-again".into(), panic_msg(e)) };
  if f2 != f1 { return Fmt::Fail("not-idempotent".into(), format!("formatting the formatted text changes it:\n--- first ---\n{}\n--- second ---\n{}", f1, f2)); }
  // node types for the distinct key
  let mut types = vec![];
  collect_types(&c1, &mut types);
  types.sort(); types.dedup();
  Fmt::Ok(types)
}

fn has_error_node(j: &J) -> bool {
  match j {
    J::Object(m) => m.iter().any(|(k, v)| k == "Error" || has_error_node(v)),
    J::Array(a) => a.iter().any(has_error_node),
    _ => false,
  }
}

fn collect_types(j: &J, out: &mut Vec<String>) {
  match j {
    J::Object(m) => { for (k, v) in m { if k.chars().next().map(|c| c.is_uppercase()).unwrap_or(false) && out.len() < 400 { out.push(k.clone()); } collect_types(v, out); } }
    J::Array(a) => for v in a { collect_types(v, out); },
    _ => {}
  }
}

fn check(c: &Case) -> Verdict {
  let mut v = Verdict::new();
  let Some(src) = case_text(c) else { v.discard("corpus entry missing"); return v; };
  let class = match c { Case::Snippet(_) => "suite-snippet".to_string(), Case::File(_) => "mec-file".to_string(), Case::Gen(g) if g.len() == 1 => format!("construct:{}", construct(g[0].0, g[0].1).0), Case::Gen(_) => "composite".to_string(), Case::Prog(_) => "typed-program".to_string(), Case::Gram(_) => "grammar".to_string(), Case::Doc(_) => "document".to_string(), Case::Text(_) => "text".to_string() };
  v.label(format!("class:{}", class.split(':').next().unwrap_or("")));
  if let Case::Gen(g) = c { for (kk, p) in g { v.label(format!("construct:{}", construct(*kk, *p).0)); } }
  let gram_feats: Vec<&'static str> = if let Case::Gram(ch) = c { crate::xgen::program(ch).1 } else if let Case::Doc(ch) = c { crate::xgen::document(ch).1 } else { vec![] };
  match round_trip(&src) {
    Fmt::Discard(why) => { v.discard(format!("{}: {}", class.split(':').next().unwrap_or(""), why)); if matches!(c, Case::Gen(g) if g.len() == 1) { v.label(format!("construct-does-not-parse:{}", class)); } }
    Fmt::Ok(types) => { for f in &gram_feats { v.label(format!("grammar:{}", f)); } if types.len() >= 3 { v.key = Some(types.join(",").chars().take(300).collect()); } }
    Fmt::Fail(kind, msg) => {
      // single generated constructs are keyed by construct; everything else by failure class + node path
      let sig = match c { Case::Gen(g) if g.len() == 1 => format!("C08|{}|{}", class, kind), _ => format!("C08|{}", kind) };
      v.fail(sig, format!("{}\n--- source ---\n{}", msg, src.chars().take(1500).collect::<String>()));
    }
  }
  v
}

/// which top-level element makes the formatted text unparseable: each element is formatted alone; the node-type chain of the first
/// one whose text does not parse again names the emitter at fault
thread_local! { pub static LOCAL_TEXT: std::cell::RefCell<String> = std::cell::RefCell::new(String::new()); }
fn localise_reparse(t: &mech_core::Program) -> String {
  for (si, sec) in t.body.sections.iter().enumerate() {
    for (ei, el) in sec.elements.iter().enumerate() {
      // split MechCode blocks into their items
      let items: Vec<mech_core::SectionElement> = match el { mech_core::SectionElement::MechCode(v) => v.iter().map(|x| mech_core::SectionElement::MechCode(vec![x.clone()])).collect(), other => vec![other.clone()] };
      for item in items {
        let mut one = t.clone();
        one.title = None;
        one.body.sections = vec![mech_core::Section { subtitle: None, elements: vec![item.clone()] }];
        let f = match catch_unwind(AssertUnwindSafe(|| Formatter::new().format(&one))) { Ok(f) => f, Err(_) => return "format-panic".into() };
        let ok = matches!(catch_unwind(AssertUnwindSafe(|| parser::parse(&f))), Ok(Ok(_)));
        if !ok {
          let j = canon(&serde_json::to_value(&item).unwrap_or(J::Null));
          let mut chain = vec![];
          type_chain(&j, &mut chain);
          let _ = (si, ei);
          LOCAL_TEXT.with(|d| *d.borrow_mut() = f.chars().take(600).collect());
          return chain.into_iter().take(3).collect::<Vec<_>>().join(">");
        }
      }
    }
  }
  if t.title.is_some() { return "title-or-layout".into(); }
  "combination-only".into()
}

fn type_chain(j: &J, out: &mut Vec<String>) {
  match j {
    J::Object(m) => { for (k, v) in m { if k.chars().next().map(|c| c.is_uppercase()).unwrap_or(false) { out.push(k.clone()); type_chain(v, out); return; } } for (_, v) in m { let n = out.len(); type_chain(v, out); if out.len() > n { return; } } }
    J::Array(a) => { for v in a { let n = out.len(); type_chain(v, out); if out.len() > n { return; } } }
    _ => {}
  }
}
