//! C09 The parser is total: any text yields a tree or a located error report.

use crate::engine::*;
use crate::mech::*;
use crate::props::c08;
use mech_syntax::parser;
use mech_syntax::{ParserErrorReport, TextFormatter};
use proptest::prelude::*;
use serde::{Deserialize, Serialize};
use std::panic::{catch_unwind, AssertUnwindSafe};

pub struct C09;

#[derive(Clone, Debug, Serialize, Deserialize)]
pub enum Base { Snippet(u32), File(u32), Gen(Vec<(u8, u32)>), Gram(Vec<u32>), Doc(Vec<u32>) }

#[derive(Clone, Debug, Serialize, Deserialize)]
pub enum Case {
  /// random string over the Mech token alphabet (indices into ALPHABET); bracket nesting capped at 4
  Alpha(Vec<u16>),
  /// a valid program with token-level mutations (op, a, b)
  Mutant { base: Base, muts: Vec<(u8, u32, u32)> },
  /// the first `len` (scaled) characters of a valid program / document
  Prefix { base: Base, len: u32 },
  /// Unicode stress: STRESS and ALPHABET entries mixed
  Stress(Vec<u16>),
  /// literal text
  Raw(String),
}

pub const ALPHABET: &[&str] = &[
  ":=", "=", "+=", "-=", "*=", "/=", "^=", "->", "=>", "~>", "<", ">", "<=", ">=", "!=", "==", "≠", "≤", "≥", "+", "-", "*", "/", "^", "**", "×", "÷", "%",
  "&&", "||", "¬", "⊻", "!", "&", "|", "∪", "∩", "∈", "∉", "⊆", "⊇", "∖", "·", "⨯", "\\", "'",
  "(", ")", "[", "]", "{", "}", "⟨", "⟩", ",", ";", ":", "::", ".", "..", "..=", "...", "#", "~", "?", "@", "$", "_", "`", "```", "~~~", "\"", "\"\"\"",
  "--", "//", "%%", "├", "└", "│", "─", "╭", "╯", "⦿", "⸢", "⸥", "§", "✓", "✗", "🎉", "🤖",
  "x", "y", "foo", "a-b", "math/sin", "Δx", "1", "42", "3.14", "1e3", "1.5e-3", "0x1F", "0b101", "0o17", "0d99", "1u8", "255u8", "2i", "1+2i", "1/3", "true", "false", "✓",
  "<u8>", "<f64>", "<[f64]:2,2>", "<{u8}>", "<_>", "<string>", ":a", ":b(1)", "`A", "*", "| x y |", "|x<u8>|", "{x: 1}", "{1, 2}", "(1, 2)", "[1 2; 3 4]", "[1 2\n 3 4]",
  " ", "  ", "    ", "\t", "\n", "\n\n", "\r\n", "\r", "1.", "1. ", "- ", "-[x] ", "-[ ] ", "* ", "> ", "(i)> ", "(!)> ", "(?)> ", ">: ", "===", "=====", "---", "-----", "***",
  "![", "](", "[^", "]:", "{{", "}}", "$$", "__", "~~", "!!", "http://x.y", "https://", "<<:", ":>>", "mech", "```mech", "```mech:disabled", "```mech:ns", "```python", "```ebnf", "```{diagram}",
  "Hello world", "The value", "is set here.", "fn", "f(x<f64>) = <f64>", "|", "*", "x?", "match", "├ 1 => 2", "└ * => 0.", "#M(n) -> :A(n)", "=> n.", "{ x | x <- 1..3 }", "<-", "..3", "x[1]", "x[1,:]", "x.a", "x{1}", "x[[true false]]",
  // link / image / footnote / inline-markup fragments, complete and empty (appended: earlier indices keep their meaning)
  "[a link](url)", "[a]()", "]()", "](url)", "![alt](src)", "![]()", "[^1]", "[^1]: note", "[ref]", "[]", "()", "{{x}}", "{{}}", "{x}", "$$x$$", "$$$$", "**b**", "****", "*e*", "__", "_u_", "~s~", "~~", "!!h!!", "!!!!", "`c`", "``", "§1", "%% ", ">> ", "<< ",
];

pub const STRESS: &[&str] = &[
  "\u{0301}", "e\u{0301}", "\u{200d}", "👩\u{200d}👩\u{200d}👧", "🏳\u{fe0f}\u{200d}🌈", "👍🏽", "\u{200e}", "\u{200f}", "\u{202e}", "\u{2066}", "\u{feff}", "\u{0}", "\u{7f}", "\u{85}", "\u{2028}", "\u{2029}", "\u{b}", "\u{c}",
  "\u{d7ff}", "\u{e000}", "\u{fffd}", "\u{ffff}", "\u{10000}", "\u{10ffff}", "ß", "İ", "ﬁ", "Ω", "𝔁", "א", "ب", "中", "한", "ﷺ", "\u{1f1e8}\u{1f1e6}", "\u{20e3}", "1\u{fe0f}\u{20e3}", "\u{3000}", "\u{a0}", "\u{2003}", "┼", "╬", "═", "║", "░", "▓", "⎡", "⎦", "∑", "∫", "√", "∞", "π",
  "x\u{0301} := 1", "\"e\u{0301}\"", "🎉 := 2", "-(🎉) item", "\r\n", "\r", "\n\r", "\u{0}\n",
];

fn base_text(b: &Base) -> Option<String> {
  match b {
    Base::Snippet(i) => { let c = c08::corpus("snippets"); if c.is_empty() { None } else { Some(c[*i as usize % c.len()].1.clone()) } }
    Base::File(i) => { let c = c08::corpus("files"); if c.is_empty() { None } else { Some(c[*i as usize % c.len()].1.clone()) } }
    Base::Gen(v) => c08::case_text(&c08::Case::Gen(v.clone())),
    Base::Gram(v) => Some(crate::xgen::program(v).0),
    Base::Doc(v) => Some(crate::xgen::document(v).0),
  }
}

/// nesting as the parser experiences it: an opener pushes, a closer pops only if it matches the innermost opener (a stray `]` inside
/// `{{{{` closes nothing, so what follows is still four levels deep)
fn closer_of(c: char) -> Option<char> { match c { '(' => Some(')'), '[' => Some(']'), '{' => Some('}'), '<' => Some('>'), '⟨' => Some('⟩'), _ => None } }
pub fn true_nesting(text: &str) -> usize {
  let mut stack: Vec<char> = vec![]; let mut max = 0;
  for ch in text.chars() {
    if let Some(cl) = closer_of(ch) { stack.push(cl); max = max.max(stack.len()); }
    else if matches!(ch, ')' | ']' | '}' | '>' | '⟩') { if stack.last() == Some(&ch) { stack.pop(); } }
  }
  max
}

/// concatenation with the nesting cap: once 4 brackets are open (in the sense of `true_nesting`) further openers are dropped
fn join_capped(ix: &[u16], table: &dyn Fn(u16) -> &'static str) -> String {
  let mut out = String::new();
  let mut stack: Vec<char> = vec![];
  for i in ix {
    let t = table(*i);
    for ch in t.chars() {
      if let Some(cl) = closer_of(ch) { if stack.len() >= 4 { continue; } stack.push(cl); out.push(ch); }
      else if matches!(ch, ')' | ']' | '}' | '>' | '⟩') { if stack.last() == Some(&ch) { stack.pop(); } out.push(ch); }
      else { out.push(ch); }
    }
  }
  out
}

fn tokens(src: &str) -> Vec<String> {
  let mut out: Vec<String> = vec![];
  let mut cur = String::new();
  let mut cls = 0u8;
  for ch in src.chars() {
    let c = if ch.is_alphanumeric() || ch == '_' { 1 } else if ch == ' ' || ch == '\t' { 2 } else { 3 };
    if c == 3 || c != cls { if !cur.is_empty() { out.push(std::mem::take(&mut cur)); } }
    cur.push(ch);
    cls = c;
    if c == 3 { out.push(std::mem::take(&mut cur)); cls = 0; }
  }
  if !cur.is_empty() { out.push(cur); }
  out
}

fn scale(a: u32, len: usize) -> usize { ((a as u64 * len as u64) >> 32) as usize }

pub fn mutate(src: &str, muts: &[(u8, u32, u32)]) -> String {
  let mut t = tokens(src);
  for (op, a, b) in muts {
    if t.is_empty() { t.push(ALPHABET[scale(*b, ALPHABET.len())].to_string()); continue; }
    let i = scale(*a, t.len());
    match op % 9 {
      0 => { t.remove(i); }
      1 => { let x = t[i].clone(); t.insert(i, x); }
      2 => { let j = scale(*b, t.len()); t.swap(i, j); }
      3 => { t[i] = ALPHABET[scale(*b, ALPHABET.len())].to_string(); }
      4 => { t.insert(i, ALPHABET[scale(*b, ALPHABET.len())].to_string()); }
      5 => { t.truncate(i); }
      6 => { // unbalance: drop the next closing bracket at or after i, else insert an opener
        if let Some(j) = (i..t.len()).find(|j| matches!(t[*j].as_str(), ")" | "]" | "}" | ">" | "\"" | "`")) { t.remove(j); } else { t.insert(i, ["(", "[", "{", "<", "\"", "```"][scale(*b, 6)].to_string()); }
      }
      7 => { let n = 1 + scale(*b, 5); let e = (i + n).min(t.len()); t.drain(i..e); }
      _ => { t.insert(i, STRESS[scale(*b, STRESS.len())].to_string()); }
    }
  }
  t.concat()
}

pub fn case_text(c: &Case) -> Option<String> {
  match c {
    Case::Alpha(ix) => Some(join_capped(ix, &|i| ALPHABET[i as usize % ALPHABET.len()])),
    Case::Stress(ix) => Some(join_capped(ix, &|i| { let n = STRESS.len() + ALPHABET.len() / 2; let k = i as usize % n; if k < STRESS.len() { STRESS[k] } else { ALPHABET[(i as usize / n + k) % ALPHABET.len()] } })),
    Case::Mutant { base, muts } => base_text(base).map(|s| mutate(&s, muts)),
    Case::Prefix { base, len } => base_text(base).map(|s| { let n = s.chars().count(); let k = scale(*len, n + 1); s.chars().take(k).collect() }),
    Case::Raw(s) => Some(s.clone()),
  }
}

// ---------------------------------------------------------------------------------------------
// oracle

thread_local! { static PANIC_AT: std::cell::RefCell<String> = std::cell::RefCell::new(String::new()); }

fn install_hook() {
  static ONCE: std::sync::Once = std::sync::Once::new();
  ONCE.call_once(|| {
    std::panic::set_hook(Box::new(|info| {
      let loc = info.location().map(|l| { let f = l.file(); let f = f.rsplit("/src/").next().unwrap_or(f); format!("{}:{}", f, l.line()) }).unwrap_or_else(|| "?".into());
      PANIC_AT.with(|p| *p.borrow_mut() = loc);
    }));
  });
}
fn panic_at() -> String { PANIC_AT.with(|p| p.borrow().clone()) }

#[derive(Clone, PartialEq)]
pub enum Parsed9 { Tree(String, bool), Report(ParserErrorReport), OtherErr(String), Panic(String, String) }

fn parse_once(text: &str) -> Parsed9 {
  PANIC_AT.with(|p| p.borrow_mut().clear());
  match catch_unwind(AssertUnwindSafe(|| parser::parse(text))) {
    Err(e) => Parsed9::Panic(panic_at(), panic_msg(e)),
    Ok(Ok(t)) => { let j = serde_json::to_string(&t).unwrap_or_default(); let has_err = j.contains("\"Error\":"); Parsed9::Tree(j, has_err) }
    Ok(Err(e)) => match e.kind_as::<ParserErrorReport>() { Some(r) => Parsed9::Report(r.clone()), None => Parsed9::OtherErr(e.kind_name()) },
  }
}

/// the lines of the text as the parser sees it (init_source appends one newline); a location (row, col), 1-indexed, lies in the input iff the row
/// exists and 1 <= col <= graphemes(row) + 1 (ranges are end-exclusive, so one past the last grapheme of a row is inside)
pub struct Bounds { pub line_len: Vec<usize> }
impl Bounds {
  pub fn of(text: &str) -> Bounds {
    let g = mech_syntax::graphemes::init_source(text);
    let mut line_len = vec![];
    let mut cur = 0usize;
    for x in g.iter() { cur += 1; if mech_syntax::graphemes::is_new_line(x) { line_len.push(cur); cur = 0; } }
    if cur > 0 { line_len.push(cur); }
    Bounds { line_len }
  }
  pub fn inside(&self, row: usize, col: usize) -> bool { row >= 1 && row <= self.line_len.len() && col >= 1 && col <= self.line_len[row - 1] + 1 }
}

fn norm_msg(m: &str) -> String { m.chars().filter(|c| !c.is_ascii_digit()).take(60).collect() }

pub fn judge(text: &str, v: &mut Verdict) {
  install_hook();
  let _ = std::env::set_current_dir("/");
  let a = parse_once(text);
  let _ = std::fs::create_dir_all(format!("{}/target/tmp/c09-empty", verif_dir()));
  let _ = std::env::set_current_dir(format!("{}/target/tmp/c09-empty", verif_dir()));
  let b = parse_once(text);
  let _ = std::env::set_current_dir("/");
  if let Parsed9::Panic(at, msg) = &a { v.fail(format!("C09|panic|{}", at), format!("parser::parse panicked at {}: {}", at, msg)); return; }
  if a != b { v.fail("C09|nondeterministic", "the same text parsed twice in one process (different working directories) gives different outcomes"); return; }
  match &a {
    Parsed9::Panic(..) => unreachable!(),
    Parsed9::OtherErr(k) => { v.fail(format!("C09|error-without-report|{}", k), format!("parse returned an error that is not a ParserErrorReport: {}", k)); }
    Parsed9::Tree(_, has_err) => { v.label(if *has_err { "outcome:tree-with-error-placeholders" } else { "outcome:tree" }); if *has_err { v.key = Some("tree-with-error-placeholders".into()); } }
    Parsed9::Report(r) => {
      v.label("outcome:report");
      v.label(format!("errors:{}", match r.1.len() { 0 => "0", 1 => "1", 2..=5 => "2-5", 6..=10 => "6-10", _ => ">10" }));
      // distinct key: the sequence of (normalised) error messages, i.e. which recovery paths ran and in which order
      let msgs: Vec<String> = r.1.iter().take(6).map(|c| norm_msg(&c.err_message).chars().take(24).collect()).collect();
      v.key = Some(format!("report|{}|{}", msgs.join(">"), r.1.len().min(12)));
      if r.0 != text { v.fail("C09|report-text-differs", "the report carries a text that is not the input"); return; }
      if r.1.is_empty() { v.fail("C09|empty-report", "error report without any error"); return; }
      let bounds = Bounds::of(text);
      for ctx in &r.1 {
        let mut all = vec![("cause", &ctx.cause_rng)];
        for a in &ctx.annotation_rngs { all.push(("annotation", a)); }
        for (what, rng) in all {
          let (s, e) = (&rng.start, &rng.end);
          let msg = norm_msg(&ctx.err_message);
          if s.row == 0 && s.col == 0 && e.row == 0 && e.col == 0 { v.label("range:uninitialised"); v.fail(format!("C09|range-uninitialised|{}|{}", what, msg), format!("{} range of error `{}` is the uninitialised range [0:0, 0:0): the error is not located", what, ctx.err_message)); continue; }
          if !bounds.inside(s.row, s.col) || !bounds.inside(e.row, e.col) { v.fail(format!("C09|range-outside|{}|{}", what, msg), format!("{} range {:?} of error `{}` lies outside the input ({} lines; line lengths incl. newline: {:?})", what, rng, ctx.err_message, bounds.line_len.len(), bounds.line_len.iter().take(12).collect::<Vec<_>>())); continue; }
          if (s.row, s.col) > (e.row, e.col) { v.fail(format!("C09|range-reversed|{}|{}", what, msg), format!("{} range {:?} of error `{}` ends before it starts", what, rng, ctx.err_message)); }
        }
      }
      // the report must be printable
      PANIC_AT.with(|p| p.borrow_mut().clear());
      let r2 = r.clone();
      if let Err(e) = catch_unwind(AssertUnwindSafe(|| TextFormatter::new(text).format_error(&r2))) {
        v.fail(format!("C09|format-error-panic|{}", panic_at()), format!("TextFormatter::format_error panicked at {}: {}", panic_at(), panic_msg(e)));
      }
    }
  }
}

impl Prop for C09 {
  type Case = Case;
  const ID: &'static str = "C09";
  fn budget(t: Tier) -> u32 { t.pick(30_000, 600_000) }
  fn timeout_ms(_t: Tier) -> u64 { 45_000 }
  fn timeout_is_violation() -> bool { false }
  fn strategy(_t: Tier, _k: &Known) -> BoxedStrategy<Case> {
    let base = || prop_oneof![4 => any::<u32>().prop_map(Base::Snippet), 2 => any::<u32>().prop_map(Base::File), 2 => proptest::collection::vec((0..c08::NCONSTRUCTS, any::<u32>()), 1..=4).prop_map(Base::Gen),
      4 => proptest::collection::vec(0u32..1_000_000, 3..=40).prop_map(Base::Gram), 6 => proptest::collection::vec(0u32..1_000_000, 3..=30).prop_map(Base::Doc)];
    let alpha = proptest::collection::vec(0u16..ALPHABET.len() as u16, 0..=60).prop_map(Case::Alpha).boxed();
    let stress = proptest::collection::vec(any::<u16>(), 0..=40).prop_map(Case::Stress).boxed();
    let mutant = (base(), proptest::collection::vec((0u8..9, any::<u32>(), any::<u32>()), 1..=6)).prop_map(|(base, muts)| Case::Mutant { base, muts }).boxed();
    let prefix = (base(), any::<u32>()).prop_map(|(base, len)| Case::Prefix { base, len }).boxed();
    prop_oneof![3 => alpha, 2 => stress, 4 => mutant, 3 => prefix].boxed()
  }
  fn fixed_cases(_t: Tier) -> Vec<Case> {
    let mut out: Vec<Case> = vec![];
    for s in ["", "\n", "\r", "\r\n", " ", "\t", "\u{feff}", "\u{0}", "```", "```\nabc", "~~~\nabc", "```mech\nx := 1", "abc ]", "- item |", "> quote text <", "x := [", "x := (", "x := {", "x := \"abc", "x := \"\"\"abc", "x :=", ":=", "x := 1 +", "f(x) =", "#M(", "| a | b |\n|---|", "1. ", "- ", "((((1))))", "[[[[1]]]]", "{{{{1}}}}", "x := 1\n\n\n", "x := 1\r\ny := 2\r\n", "The value x := 5 is set here.", "e\u{0301}", "👩\u{200d}👩\u{200d}👧 := 1", "x := \"\u{202e}abc\"", "\u{2028}", "a\u{85}b"] { out.push(Case::Raw(s.to_string())); }
    for i in 0..c08::corpus("snippets").len() as u32 { out.push(Case::Prefix { base: Base::Snippet(i), len: u32::MAX }); }
    for i in 0..c08::corpus("files").len() as u32 { out.push(Case::Prefix { base: Base::File(i), len: u32::MAX }); }
    out
  }
  fn rule() -> &'static str {
    "case ∈ {random strings over a 200-entry Mech token alphabet (operators, brackets, box drawing, literals, kinds, fences, Mechdown sigils, newlines incl. CR/CRLF), bracket nesting capped at 4; \
     Unicode stress strings (combining marks, ZWJ sequences, bidi controls, NUL, line separators, plane-16 characters) mixed with tokens; valid programs (suite snippets, .mec files, \
     grammar-generated constructs) with 1-6 token-level mutations (delete, duplicate, swap, replace, insert, truncate, unbalance a bracket/quote/fence, delete a span, insert a stress grapheme); \
     character prefixes of valid programs and documents; every suite snippet and .mec file unchanged}. Oracle: parse() under catch_unwind returns (no panic; budget overruns are counted, not judged), \
     the outcome is a tree or a ParserErrorReport carrying the input; every cause/annotation range of the report is initialised, lies inside the input (row exists, 1 <= col <= row length + 1), \
     is not reversed; TextFormatter::format_error prints it without panicking; a second parse of the same text from a different working directory gives the identical outcome. \
     Non-trivial = the text is rejected or parsed with error placeholders; distinct key = (sequence of the first six error messages, number of errors), i.e. which recovery paths ran in which order."
  }
  fn assumptions() -> Vec<String> { vec![
    "termination is decided only up to the 45 s per-case budget; an overrun is a violation only for texts of at most 300 characters whose bracket nesting — counted as the parser experiences it: a closer pops only the matching innermost opener — is at most 3; otherwise it is counted as a timeout (exit 2 above 1 %). (A 296-character text with four unclosed braces followed by further openers took 14.6 s on an idle core: exponential, not non-terminating)".into(),
    "bracket nesting in generated strings is capped at 4 because parse time grows exponentially with nesting depth (observation recorded in DESIGN.md)".into(),
    "`accounts for the entire input` is taken as parse()'s own contract (Ok only if nothing remains); it is not re-derived from the tree, which drops punctuation tokens".into(),
  ] }
  fn describe(c: &Case) -> String { format!("{:?}", case_text(c).unwrap_or_default().chars().take(400).collect::<String>()) }
  fn crash_sig(_c: &Case, what: &str) -> String { format!("C09|crash|{}", what) }
  /// a text of at most 300 characters whose true bracket nesting is at most 3 parses in well under a second, so 45 s without an answer is
  /// non-termination, not slowness. (Nesting must be counted as the parser experiences it: `{{{{…]]…f(x<` is six levels deep although a
  /// naive counter that lets any closer close any opener sees four — that text took 14.6 s and was once reported as a hang: false alarm, corrected)
  fn hang_sig(c: &Case) -> Option<String> {
    let text = case_text(c)?;
    if text.chars().count() > 300 { return None; }
    if true_nesting(&text) > 3 { return None; }
    Some("C09|hang|small-input".to_string())
  }
  fn check(c: &Case, _cx: &Cx) -> Verdict {
    let mut v = Verdict::new();
    let Some(text) = case_text(c) else { v.discard("corpus entry missing"); return v; };
    v.label(match c { Case::Alpha(_) => "gen:alphabet", Case::Stress(_) => "gen:unicode-stress", Case::Mutant { .. } => "gen:mutant", Case::Prefix { len, .. } if *len == u32::MAX => "gen:corpus-unchanged", Case::Prefix { .. } => "gen:prefix", Case::Raw(_) => "gen:handwritten" });
    if !text.is_ascii() { v.label("text:non-ascii"); }
    v.label(format!("chars:{}", match text.chars().count() { 0 => "0", 1..=20 => "1-20", 21..=200 => "21-200", 201..=2000 => "201-2000", _ => ">2000" }));
    judge(&text, &mut v);
    v
  }
}
