//! C10 Literate documents: prose is inert and named code blocks are isolated.

use crate::engine::*;
use crate::mech::*;
use crate::progs::{self, Opts};
use crate::rval::*;
use proptest::prelude::*;
use serde::{Deserialize, Serialize};

pub struct C10;

/// how a statement of the program is placed in the document
#[derive(Clone, Copy, Debug, PartialEq, Eq, Hash, Serialize, Deserialize)]
pub enum Place { Bare, Fence }

#[derive(Clone, Debug, Serialize, Deserialize)]
pub struct Case {
  /// programs: [0] = unnamed/main, [1..] = named fences (same variable names on purpose)
  pub programs: Vec<Vec<u32>>,
  /// fence names for programs[1..] (index into NAMES)
  pub names: Vec<u8>,
  /// interleaving: sequence of (program index, placement); each entry emits that program's next statement
  pub order: Vec<(u8, Place)>,
  /// prose element (index into the prose pool, 255 = none) put before each emitted statement
  pub prose: Vec<u8>,
  pub title: bool,
  /// append an erroneous statement as the last statement of this named program (0 = none)
  pub error_in: u8,
  /// separate elements by a single newline instead of a blank line (recorded, not judged)
  pub tight: bool,
  /// trailing comment per emitted statement (index into TRAILING; 0 = none)
  #[serde(default)]
  pub trailing: Vec<u8>,
  /// spelling of the executable fence per emitted statement: bit 0 marker (``` / ~~~), bits 1-2 tag (mech / mec / 🤖 / mech:hidden for the
  /// unnamed program), bits 3-4 option map (none / {output: false} / {output: "no"} / {output: true}); 0 = ```mech as before.
  /// All of them are executable code: `hidden` and `output` only say what a renderer shows
  #[serde(default)]
  pub styles: Vec<u8>,
}

fn fence_text(style: u8, name: Option<&str>, body: &str) -> String {
  let m = if style & 1 == 0 { "```" } else { "~~~" };
  let tag = match ((style >> 1) & 3, name) { (0, _) => "mech", (1, _) => "mec", (2, _) => "🤖", (_, None) => "mech:hidden", (_, Some(_)) => "mech" };
  let opts = ["", "{output: false}", "{output: \"no\"}", "{output: true}"][((style >> 3) & 3) as usize];
  match name { Some(n) => format!("{}{}:{}{}\n{}\n{}", m, tag, n, opts, body, m), None => format!("{}{}{}\n{}\n{}", m, tag, opts, body, m) }
}

/// fence names: case variants on purpose (names are case-sensitive)
pub const NAMES: [&str; 6] = ["left", "Left", "right", "aux", "LEFT", "Disabled"];

/// prose candidates; each is pre-screened (must parse alone as prose only)
pub const PROSE: [&str; 56] = [
  "This is a paragraph about things.",
  "Another paragraph, with numbers 1 2 3 and some words.",
  "Note that y = x + 1 in what follows.",
  "The matrix has brackets like this [a b] in the text.",
  "We call f(x) twice here, see below.",
  "Values such as 5 and 7 appear in prose.",
  "- item one\n- item two",
  "- alpha\n- beta\n- gamma",
  "1. first thing\n2. second thing",
  "> a quoted line of text",
  "> quote one\n> quote two",
  "***",
  "| a | b |\n|---|---|\n| 1 | 2 |",
  "```python\nq = 5\nprint(q)\n```",
  "```\nplain fenced text\nv1 := 77\n```",
  "```mech:disabled\nv1 := 99\nv2 := 98\n```",
  "```Mech\nv1 := 55\n```",
  "```MECH\nv2 := 56\n```",
  "```text\nv1 := 1000\n```",
  "-- a comment line",
  "Some *emphasis* and **strong** words and `inline code` here.",
  "A line ending with a colon:",
  "x is defined above; v1 is not mentioned here as code.",
  "2. Numbered section\n-------------------",
  "Section words\n-------------",
  "~~~\ntilde fenced\nv3 := 5\n~~~",
  // comments whose text looks like code, contains statement separators, or uses inline markup
  "-- set it later; v1 = 5",
  "// a slash comment about v1 = 3; v2 = 4",
  "-- note: v1 = 77",
  "-- **bold**, `code` and [a link](http://x.y) in a comment",
  "-- a\\_b \\*not closed, see below",
  "-- first; second; third",
  // a fence of one type shown inside a fence of the other type (the documented way to display a fence), longer around shorter
  "~~~\n```\nv1 := 41\n```\n~~~",
  "```text\n~~~\nv2 := 42\n~~~\n```",
  "````\n```\nv1 := 43\n```\n````",
  "~~~python\n```mech\nv1 := 44\n```\n~~~",
  "```\n~~~mech\nv3 := 45\n~~~\n```",
  "~~~mech:disabled\nv1 := 46\nv2 := 47\n~~~",
  "```python title\nv1 := 48\n```",
  // block elements whose text looks like code
  "- v1 = 51\n- v2 = 52",
  "1. v1 = 53\n2. v2 = 54",
  "> v1 = 55",
  "(i)> v1 = 56 is only shown",
  "(!)> careful: v2 = 57",
  "(?)> is v3 = 58 run",
  "[^1]: a footnote saying v1 = 59",
  "| v1 = 60 | b |\n|---|---|\n| v2 = 61 | 2 |",
  "![v1 = 62](img.png)",
  "$$ v1 = 63",
  "-[x] v1 = 64\n-[ ] v2 = 65",
  "Some text with `v1 = 66` inline code and **v2 = 67** strong.",
  "See [v1 = 68](http://x.y/v2) for details.",
  "  - nested v1 = 69\n  - item",
  "Title words v1\n==============",
  "(1.1) v1 = 70 as a subtitle",
  "%% v1 = 71",
];

/// comments appended to a statement on the same line (0 = none)
/// which pool entries are prose (they parse, alone, to prose elements only) ON THE PINNED TREE. Fixed here rather than re-derived at run
/// time: a change that makes one of them read as code would otherwise remove it from the documents and hide itself. An entry listed here
/// is always woven in, and the metamorphic oracle judges what it does.
pub const PROSE_BASELINE: [bool; 56] = [true, true, true, false, true, true, true, true, true, true, true, true, true, true, true, true, true, true, true, true, true, true, true, true, false, true, true, true, true, true, true, true, true, true, false, true, true, true, true, true, true, true, true, true, true, true, true, true, true, true, true, true, true, true, true, true];

pub const TRAILING: [&str; 6] = ["", " -- plain words", " -- reset; v1 = 9", " // slash; v2 = 8", " -- note: v3 = 7", " -- a\\_b x"];

impl Prop for C10 {
  type Case = Case;
  const ID: &'static str = "C10";
  fn max_shrink_iters() -> u32 { 400 }
  fn budget(t: Tier) -> u32 { t.pick(3_000, 50_000) }
  fn strategy(_t: Tier, _k: &Known) -> BoxedStrategy<Case> {
    let choices = || proptest::collection::vec(0u32..100_000, 4..=40);
    (proptest::collection::vec(choices(), 1..=3), proptest::collection::vec(0u8..6, 2), proptest::collection::vec((0u8..3, prop_oneof![Just(Place::Bare), Just(Place::Fence)]), 1..=14), proptest::collection::vec(prop_oneof![2 => Just(255u8), 5 => 0u8..26, 2 => 26u8..32, 5 => 32u8..56], 16), any::<bool>(), prop_oneof![3 => Just(0u8), 2 => 1u8..9], proptest::bool::weighted(0.1), proptest::collection::vec(prop_oneof![3 => Just(0u8), 2 => 1u8..6], 14), proptest::collection::vec(prop_oneof![2 => Just(0u8), 3 => 0u8..32], 15))
      .prop_map(|(programs, names, order, prose, title, error_in, tight, trailing, styles)| {
        let mut names = names; if names[0] == names[1] { names[1] = (names[1] + 1) % 6; }
        Case { programs, names, order, prose, title, error_in, tight, trailing, styles }
      }).boxed()
  }
  fn rule() -> &'static str {
    "case = 1-3 independent programs over the SAME variable names (one for the unnamed program, the others for named fences whose names \
     include case variants left/Left/LEFT and `Disabled`), their statements interleaved in document order, each placed as bare code or in \
     a fence (spelled with ``` or ~~~, tag mech / mec / 🤖 / mech:hidden, with or without an {output: …} option map — display options that leave the code executable), with prose elements from a 56-element pool in between (paragraphs incl. code-looking ones, lists, quotes, thematic break, \
     markdown table, python / plain / tilde / disabled / capitalised-tag fences containing conflicting definitions, `--` and `//` comments (also with code-looking text, `;` separators and inline markup, stand-alone and trailing a statement), section \
     headers) and an optional title; optionally an erroneous last statement in one named fence. Which pool entries are prose is fixed from the pinned tree (PROSE_BASELINE: 53 of 56 parse alone to prose elements only), not re-derived at run time. Oracle (metamorphic): main snapshot == interpreting the unnamed program's code alone; the set of \
     sub-interpreter snapshots == the set of per-name programs interpreted alone. Non-trivial = ≥2 prose elements next to code incl. a \
     code-looking one, or ≥2 fence names sharing a variable name; distinct key = (#programs, name pair, element kinds multiset, error?)."
  }
  fn assumptions() -> Vec<String> {
    vec!["a pool entry is used as prose iff it parses alone to prose elements only on the pinned tree (PROSE_BASELINE, 53 of 56); the others are never used (counted as prose_rejected)".into(),
         "documents that fail to parse are discarded and counted; above 5% this is reported as a harness error".into(),
         "single-newline separation is generated and recorded but carries no demand (adjacent lines may join one paragraph)".into(),
         "only core-class statements (no user functions: named fences share the function table by design)".into()]
  }
  fn describe(c: &Case) -> String { build_doc(c).0 }
  fn check(c: &Case, _cx: &Cx) -> Verdict { check(c) }
}

fn program_lines(choices: &[u32]) -> Vec<String> {
  let p = progs::build(choices, Opts { allow_mutation: true, allow_noncore: false, max_stmts: 6, trailing_other: false });
  let mut l = p.lines; l.pop(); // drop the trailing bare reference
  l
}

fn prose_ok(text: &str) -> bool { PROSE.iter().position(|p| *p == text).map(|i| PROSE_BASELINE[i]).unwrap_or(false) }

/// the dynamic screen (the element parsed alone yields prose elements only); used to learn PROSE_BASELINE and as a label
pub fn prose_screen(text: &str) -> bool {
  static CACHE: std::sync::OnceLock<Vec<bool>> = std::sync::OnceLock::new();
  let cache = CACHE.get_or_init(|| PROSE.iter().map(|p| match parse_src(p) { Parsed::Prose(t) => element_kinds(&t).iter().all(|k| !k.starts_with("MechCode") && !k.starts_with("FencedMechCode(ns=0,disabled=false") && !k.starts_with("FencedMechCode(ns=named,disabled=false") && k != "Error"), Parsed::Code(t, _) => comment_only(&t), _ => false }).collect());
  PROSE.iter().position(|p| *p == text).map(|i| cache[i]).unwrap_or(false)
}

/// document text, per-namespace code (index 0 = main), number of prose elements used, code-looking prose used?
fn build_doc(c: &Case) -> (String, Vec<Vec<String>>, usize, bool, usize, usize) {
  let progs: Vec<Vec<String>> = c.programs.iter().map(|p| program_lines(p)).collect();
  let mut next = vec![0usize; progs.len()];
  let mut per_ns: Vec<Vec<String>> = vec![vec![]; progs.len()];
  let mut parts: Vec<String> = vec![];
  let (mut nprose, mut codeish, mut rejected) = (0, false, 0);
  let mut first_fence: Vec<Option<usize>> = vec![None; progs.len()];
  let mut styled = 0usize;
  if c.title { parts.push("A Document Title\n================".to_string()); }
  for (k, (pi, place)) in c.order.iter().enumerate() {
    let pi = (*pi as usize) % progs.len();
    if next[pi] >= progs[pi].len() { continue; }
    let pr = c.prose[k % c.prose.len()];
    if pr != 255 { let text = PROSE[pr as usize % PROSE.len()]; if prose_ok(text) { parts.push(text.to_string()); nprose += 1; if pr <= 5 || (14..=18).contains(&pr) || pr == 25 || (pr >= 26 && pr != 54) { codeish = true; } } else { rejected += 1; } }
    let stmt = progs[pi][next[pi]].clone();
    next[pi] += 1;
    per_ns[pi].push(stmt.clone());
    // a trailing comment on the statement's (last) line; the code-only reference is the statement without it
    let tr = c.trailing.get(k).copied().unwrap_or(0) as usize % TRAILING.len();
    let stmt = if tr != 0 && !stmt.contains('\n') { format!("{}{}", stmt, TRAILING[tr]) } else { stmt };
    let style = c.styles.get(k).copied().unwrap_or(0);
    if pi == 0 { match place { Place::Bare => parts.push(stmt), Place::Fence => { if style != 0 { styled += 1; } parts.push(fence_text(style, None, &stmt)) } } }
    else { if style != 0 { styled += 1; } if first_fence[pi].is_none() { first_fence[pi] = Some(parts.len()); } parts.push(fence_text(style, Some(NAMES[c.names[pi - 1] as usize % NAMES.len()]), &stmt)); }
  }
  // an erroneous statement in one named namespace: error_in = 1 + (namespace - 1) + 2 * kind; it is placed right after the first fence of that
  // namespace (so that later fences of the same name still have to see the earlier variables), or at the end if the namespace has none
  if c.error_in != 0 {
    let pi = ((c.error_in as usize - 1) % 2) + 1;
    if pi < progs.len() {
      let name = NAMES[c.names[pi - 1] as usize % NAMES.len()];
      let body = match (c.error_in - 1) / 2 {
        0 => "broken := zzq + 1".to_string(),
        1 => "hfq(x<f64>) => <f64>\n  ├ 0 => 1\n  └ k => k * 2.\nbroken := hfq(\"oops\")".to_string(),
        2 => "broken<u8> := \"not a number\"".to_string(),
        _ => "brk := [1 2 3]\nbroken := brk[7]".to_string(),
      };
      let fence = fence_text(c.styles.last().copied().unwrap_or(0), Some(name), &body);
      match first_fence[pi] { Some(i) => parts.insert(i + 1, fence), None => parts.push(fence) }
      if (c.error_in - 1) / 2 == 3 { let at = if per_ns[pi].is_empty() { 0 } else { 1 }; per_ns[pi].insert(at, "brk := [1 2 3]".to_string()); }
    }
  }
  if let Some(pr) = c.prose.last() { if *pr != 255 { let text = PROSE[*pr as usize % PROSE.len()]; if prose_ok(text) { parts.push(text.to_string()); nprose += 1; } } }
  let sep = if c.tight { "\n" } else { "\n\n" };
  (parts.join(sep), per_ns, nprose, codeish, rejected, styled)
}

fn alone(lines: &[String]) -> Option<Snapshot> {
  let mut sess = Session::new();
  for l in lines { if !sess.run(l).is_ok() { /* keep going: each fence/element is evaluated on its own in the document, too */ } }
  Some(sess.snapshot())
}

fn check(c: &Case) -> Verdict {
  let mut v = Verdict::new();
  let (doc, per_ns, nprose, codeish, rejected, styled) = build_doc(c);
  if styled > 0 { v.label("fence-spelling:other-than-```mech"); }
  if rejected > 0 { v.label("prose_rejected"); }
  if c.tight { v.label("tight-separation"); }
  if per_ns.iter().all(|p| p.is_empty()) { v.discard("no statement emitted"); return v; }
  // every statement must be fine on its own within its namespace, otherwise "code only" evaluation itself fails (not a document question)
  for (i, ns) in per_ns.iter().enumerate() {
    let mut sess = Session::new();
    for l in ns { if !sess.run(l).is_ok() { v.discard(format!("program {} rejected when run alone", i)); return v; } }
  }
  let res = run_document(&doc);
  let (kinds, out, main, named) = match res {
    Err(why) => { if c.tight { v.discard("tight document did not parse"); } else if std::env::var("C10_DEBUG_PARSE").is_ok() { v.fail("C10|debug-doc-parse", format!("{}\n{}", why, doc)); } else { v.label("doc_parse_failed"); v.discard(format!("doc_parse_failed: {}", why.chars().take(30).collect::<String>())); } return v; }
    Ok(x) => x,
  };
  v.label(format!("programs:{}", per_ns.iter().filter(|p| !p.is_empty()).count()));
  if c.error_in != 0 { v.label("error-in-named-fence"); v.label(format!("error-kind:{}", ["undefined-name", "failing-user-function-call", "kind-mismatch", "index-out-of-range"][((c.error_in - 1) / 2) as usize % 4])); }
  let mut ks = kinds.clone(); ks.sort(); ks.dedup();
  let shared_names = per_ns.iter().filter(|p| !p.is_empty()).count() >= 2;
  if (nprose >= 2 && codeish) || (shared_names && per_ns.len() >= 3) { v.key = Some(format!("{}|{:?}|{}|{}", per_ns.iter().filter(|p| !p.is_empty()).count(), c.names, ks.join(","), c.error_in)); }
  if c.tight { return v; }
  if let Outcome::Panic(m) = &out { v.fail("C10|panic-escaped", format!("{}\n{}", m, doc)); return v; }
  // (3) an error inside a named fence must not surface
  if !out.is_ok() {
    let sig = if c.error_in != 0 { "C10|named-fence-error-propagated" } else { "C10|document-rejected" };
    v.fail(format!("{}|{}", sig, out.class()), format!("interpreting the document failed: {}\n{}", out.show(), doc)); return v;
  }
  // (1) main namespace
  let want_main = alone(&per_ns[0]).unwrap();
  if main != want_main {
    v.fail(format!("C10|main-namespace-differs|{}", first_odd_kind(&kinds)), format!("variables of the unnamed program differ: document {} vs code only {}\n--- document ---\n{}", show_snap(&main), show_snap(&want_main), doc));
    return v;
  }
  // (2) named namespaces: same names share, different names are isolated — compare as a multiset of snapshots
  let mut want_named: Vec<Snapshot> = vec![];
  for pi in 1..per_ns.len() {
    let has_fence = !per_ns[pi].is_empty() || (c.error_in != 0 && ((c.error_in as usize - 1) % 2) + 1 == pi);
    if has_fence { want_named.push(alone(&per_ns[pi]).unwrap()); }
  }
  let mut got_named: Vec<Snapshot> = named.into_iter().map(|x| x.1).collect();
  got_named.sort(); want_named.sort();
  if got_named != want_named {
    v.fail(format!("C10|named-namespaces-differ|{}-vs-{}|names:{}+{}", got_named.len(), want_named.len(), NAMES[c.names[0] as usize % 6], NAMES[c.names[1] as usize % 6]),
      format!("named fence namespaces: document has {} [{}], expected {} [{}]\n--- document ---\n{}", got_named.len(), got_named.iter().map(show_snap).collect::<Vec<_>>().join(" / "), want_named.len(), want_named.iter().map(show_snap).collect::<Vec<_>>().join(" / "), doc));
  }
  v
}

fn show_snap(s: &Snapshot) -> String { format!("{{{}}}", s.iter().map(|(k, v)| format!("{}={}", k, v.show())).collect::<Vec<_>>().join(", ")) }
fn first_odd_kind(kinds: &[String]) -> String { kinds.iter().find(|k| k.as_str() == "Error").cloned().unwrap_or_else(|| "no-error-element".into()) }

fn comment_only(t: &mech_core::Program) -> bool {
  t.body.sections.iter().all(|s| s.elements.iter().all(|e| match e { mech_core::SectionElement::MechCode(items) => items.iter().all(|(c, _)| matches!(c, mech_core::MechCode::Comment(_))), _ => false }))
}
