//! C11 Matrix construction by concatenation places every block where it is written.

use crate::engine::*;
use crate::gen::*;
use crate::kinds::*;
use crate::mech::*;
use crate::props::c03::distinct_elems;
use crate::rval::*;
use proptest::prelude::*;
use serde::{Deserialize, Serialize};

pub struct C11;

#[derive(Clone, Debug, PartialEq, Eq, Serialize, Deserialize)]
pub struct Block {
  pub rows: usize,
  pub cols: usize,
  /// a 1x1 block written as a scalar (true) or as a 1x1 matrix (false)
  pub scalar: bool,
  /// written inline as a nested literal instead of through a variable
  pub inline: bool,
}

#[derive(Clone, Debug, PartialEq, Eq, Serialize, Deserialize)]
pub enum Bad {
  /// block (band, pos) gets its height changed by delta
  Height(usize, usize, i8),
  /// block (band, pos) gets its width changed by delta (band widths then disagree)
  Width(usize, usize, i8),
  /// block (band, pos) is of another element kind
  Kind(usize, usize, EK),
  /// two blocks of one band: (band, p) one row taller, (band, q) one row shorter — the cell total of the band can stay what a valid row would have
  HeightPair(usize, usize, usize),
  /// two bands: block (b1, p1) one column wider, block (b2, p2) one column narrower
  WidthPair(usize, usize, usize, usize),
}

#[derive(Clone, Debug, Serialize, Deserialize)]
pub struct Case {
  pub ek: EK,
  /// row bands, each a list of blocks left to right
  pub bands: Vec<Vec<Block>>,
  pub bad: Option<Bad>,
}

/// split n into 1..=k positive parts
fn cuts(n: usize, maxparts: usize) -> BoxedStrategy<Vec<usize>> {
  let k = maxparts.min(n);
  (1..=k).prop_flat_map(move |parts| {
    // choose parts-1 distinct cut points in 1..n
    proptest::sample::subsequence((1..n).collect::<Vec<usize>>(), parts - 1).prop_map(move |mut c| {
      c.sort();
      let mut out = vec![];
      let mut prev = 0;
      for x in c { out.push(x - prev); prev = x; }
      out.push(n - prev);
      out
    })
  }).boxed()
}

fn tiling(maxr: usize, maxc: usize) -> BoxedStrategy<Vec<Vec<Block>>> {
  (1..=maxr, 1..=maxc).prop_flat_map(|(r, c)| {
    cuts(r, 7).prop_flat_map(move |heights| {
      let per_band: Vec<BoxedStrategy<Vec<Block>>> = heights.iter().map(|h| {
        let h = *h;
        cuts(c, 6).prop_flat_map(move |widths| {
          let n = widths.len();
          (proptest::collection::vec(any::<bool>(), n), proptest::collection::vec(proptest::bool::weighted(0.3), n)).prop_map(move |(sc, inl)| {
            widths.iter().enumerate().map(|(i, w)| Block { rows: h, cols: *w, scalar: h == 1 && *w == 1 && sc[i], inline: inl[i] }).collect::<Vec<Block>>()
          })
        }).boxed()
      }).collect();
      per_band
    })
  }).boxed()
}

impl Prop for C11 {
  type Case = Case;
  const ID: &'static str = "C11";
  fn budget(t: Tier) -> u32 { t.pick(12_000, 200_000) }
  fn strategy(t: Tier, _k: &Known) -> BoxedStrategy<Case> {
    let (mr, mc) = t.pick((8, 6), (10, 8)); // (a four-band stack whose inner bands differ in height needs at least 5 result rows)
    (pick(all_ek()), tiling(mr, mc), 0u8..10, any::<proptest::sample::Index>(), any::<proptest::sample::Index>(), any::<bool>(), pick(all_ek()))
      .prop_map(|(ek, bands, badsel, bi, pi, up, ek2)| {
        let b = bi.index(bands.len());
        let p = pi.index(bands[b].len());
        let blk = &bands[b][p];
        let d: i8 = if up { 1 } else { -1 };
        let bad = match badsel {
          0 => { // height perturbation only meaningful when the band has ≥ 2 blocks (else it is just a different valid tiling)
            if bands[b].len() >= 2 && (blk.rows as i8 + d) >= 1 { Some(Bad::Height(b, p, d)) } else { None }
          }
          1 => { if bands.len() >= 2 && (blk.cols as i8 + d) >= 1 { Some(Bad::Width(b, p, d)) } else { None } }
          2 => { let total: usize = bands.iter().map(|x| x.len()).sum(); if total >= 2 && ek2 != ek && compatible_literal(ek, ek2) { Some(Bad::Kind(b, p, ek2)) } else { None } }
          3 => { // compensating heights inside one band (needs a block that can shrink)
            let q = (p + 1 + (pi.index(97) % bands[b].len().max(2).saturating_sub(1))) % bands[b].len();
            if bands[b].len() >= 2 && q != p && bands[b][q].rows >= 2 { Some(Bad::HeightPair(b, p, q)) } else { None }
          }
          4 => { // compensating widths in two bands
            let b2 = (b + 1) % bands.len();
            let p2 = pi.index(bands[b2].len());
            if bands.len() >= 2 && b2 != b && bands[b2][p2].cols >= 2 { Some(Bad::WidthPair(b, p, b2, p2)) } else { None }
          }
          _ => None,
        };
        Case { ek, bands, bad }
      }).boxed()
  }
  fn rule() -> &'static str {
    "case = tiling of an RxC result (R ≤ 8, C ≤ 6 quick / R ≤ 10, C ≤ 8 thorough) into 1-7 row bands of 1-6 blocks each (two, three, four and five-or-more operands take different concatenation kernels); every block is a scalar, a 1x1 \
     matrix, a row vector, a column vector or a matrix, bound to a variable or written inline; all element kinds; elements are distinct by \
     final position. Invalid variants perturb one block height/width by ±1, perturb two blocks in compensating directions (one taller and one shorter in a band, one wider and one narrower in two bands, so that cell totals can still agree), or give one block another kind. Non-trivial = ≥ 2 blocks of \
     which one is not a scalar, or an invalid variant; distinct key = (block shape classes per band, kind, invalid class, outcome)."
  }
  fn assumptions() -> Vec<String> {
    vec!["the different-kind block is only generated for kind pairs whose blocks cannot be read as the same kind (f64 literals next to typed integers would be a typed-literal question, C13)".into()]
  }
  fn describe(c: &Case) -> String { render(c).0.join("; ") }
  fn check(c: &Case, _cx: &Cx) -> Verdict { check(c) }
}

fn compatible_literal(_a: EK, _b: EK) -> bool { true }

fn block_class(b: &Block) -> &'static str {
  if b.scalar { "s" } else if b.rows == 1 && b.cols == 1 { "m11" } else if b.rows == 1 { "r" } else if b.cols == 1 { "v" } else { "m" }
}

/// statements, expected result (None when the case is invalid), whether some block is non-scalar
fn render(c: &Case) -> (Vec<String>, Option<Opnd>) {
  let total_rows: usize = c.bands.iter().map(|b| b[0].rows).sum();
  let total_cols: usize = c.bands[0].iter().map(|b| b.cols).sum();
  let elems = distinct_elems(c.ek, total_rows * total_cols);
  let at = |r: usize, cc: usize| elems[cc * total_rows + r].clone();
  let mut st = vec![];
  let mut rows_txt = vec![];
  let mut r0 = 0;
  for (bi, band) in c.bands.iter().enumerate() {
    let mut c0 = 0;
    let mut parts = vec![];
    for (pi, blk) in band.iter().enumerate() {
      // perturbed dimensions (content is then arbitrary but well-formed)
      let (mut br, mut bc, mut ek) = (blk.rows, blk.cols, c.ek);
      match &c.bad {
        Some(Bad::Height(b, p, d)) if *b == bi && *p == pi => br = (br as i8 + d) as usize,
        Some(Bad::Width(b, p, d)) if *b == bi && *p == pi => bc = (bc as i8 + d) as usize,
        Some(Bad::Kind(b, p, k2)) if *b == bi && *p == pi => ek = *k2,
        Some(Bad::HeightPair(b, p, q)) if *b == bi && (*p == pi || *q == pi) => br = if *p == pi { br + 1 } else { br - 1 },
        Some(Bad::WidthPair(b1, p1, b2, p2)) if (*b1 == bi && *p1 == pi) || (*b2 == bi && *p2 == pi) => bc = if *b1 == bi && *p1 == pi { bc + 1 } else { bc - 1 },
        _ => {}
      }
      let data: Vec<Sc> = if ek == c.ek && br == blk.rows && bc == blk.cols {
        let mut d = vec![];
        for cc in 0..bc { for rr in 0..br { d.push(at(r0 + rr, c0 + cc)); } }
        d
      } else { distinct_elems(ek, br * bc) };
      let scalar = blk.scalar && br == 1 && bc == 1;
      let o = Opnd { scalar, rows: br, cols: bc, data };
      if blk.inline && inline_ok(&o) {
        parts.push(if scalar { lit(&o.data[0]) } else { mat_typed(o.rows, o.cols, &o.data) });
      } else {
        let name = format!("b{}x{}", bi, pi);
        st.extend(define_operand(&name, &o, false));
        parts.push(name);
      }
      c0 += blk.cols;
    }
    rows_txt.push(parts.join(" "));
    r0 += band[0].rows;
  }
  st.push(format!("m := [{}]", rows_txt.join("; ")));
  let expected = if c.bad.is_none() { Some(Opnd { scalar: false, rows: total_rows, cols: total_cols, data: elems }) } else { None };
  (st, expected)
}

/// typed-literal elements are exact only for small values; all our distinct elements are small
fn inline_ok(o: &Opnd) -> bool { !matches!(o.data[0], Sc::C(..)) || true }

fn check(c: &Case) -> Verdict {
  let mut v = Verdict::new();
  let (st, expected) = render(c);
  let mut sess = Session::new();
  let n = st.len();
  for s in &st[..n - 1] {
    match sess.run(s) { Outcome::Ok(_) => {} o => { v.harness(format!("block definition `{}` gave {}", s, o.show())); return v; } }
  }
  let out = sess.run(&st[n - 1]);
  if let Outcome::NotCode = out { v.harness(format!("`{}` parsed as prose", st[n - 1])); return v; }
  let kind = c.ek.name();
  let nblocks: usize = c.bands.iter().map(|b| b.len()).sum();
  let classes: Vec<String> = c.bands.iter().map(|b| b.iter().map(block_class).collect::<Vec<_>>().join("")).collect();
  let pattern = classes.join("/");
  v.label(format!("kind:{}", kind));
  v.label(format!("bands:{}", c.bands.len()));
  v.label(format!("blocks:{}", nblocks.min(9)));
  if let Some(nm) = sess.last_step_name() { if out.is_ok() { v.label(format!("arm:{}", nm)); } }
  for nm in sess.plan_names() { if nm.contains("Concatenate") { v.label(format!("arm:{}", nm)); } }
  let nonscalar = c.bands.iter().flatten().any(|b| !b.scalar);
  let badclass = match &c.bad { None => "valid", Some(Bad::Height(..)) => "bad-height", Some(Bad::Width(..)) => "bad-width", Some(Bad::Kind(..)) => "bad-kind", Some(Bad::HeightPair(..)) => "bad-height-pair", Some(Bad::WidthPair(..)) => "bad-width-pair" };
  v.label(format!("class:{}", badclass));
  if (nblocks >= 2 && nonscalar) || c.bad.is_some() { v.key = Some(format!("{}|{}|{}|{}", pattern, kind, badclass, out.class())); }
  if let Outcome::Panic(m) = &out { v.fail(format!("C11|panic-escaped|{}", pattern), m.clone()); return v; }
  match expected {
    Some(e) => match &out {
      Outcome::Ok(val) => {
        if *val != e.rval() {
          let what = match val { RVal::Mat { rows, cols, kind: k2, .. } => if (*rows, *cols) != (e.rows, e.cols) { "shape" } else if *k2 != kind { "kind" } else { "placement" }, _ => "not-a-matrix" };
          v.fail(format!("C11|wrong-{}|{}", what, shape_sig(c)), format!("`{}` gave {} expected {}", st[n - 1], val.show(), e.show()));
        }
      }
      other => {
        v.fail(format!("C11|valid-rejected|{}|{}|{}", shape_sig(c), kind_class(c.ek), other.class()), format!("valid tiling ({}) of kind {} was rejected: {}", pattern, kind, other.show()));
      }
    },
    None => {
      if let Outcome::Ok(val) = &out {
        v.fail(format!("C11|invalid-accepted|{}|{}", badclass, shape_sig(c)), format!("invalid literal ({}: {:?}) evaluated to {}", badclass, c.bad, val.show()));
      }
    }
  }
  v
}

fn kind_class(ek: EK) -> String { ek.name() }

/// coarse structural signature: bands x max blocks per band + set of block classes
fn shape_sig(c: &Case) -> String {
  let mut cls: Vec<&str> = c.bands.iter().flatten().map(block_class).collect();
  cls.sort();
  cls.dedup();
  format!("{}bands|{}perband|{}", c.bands.len(), c.bands.iter().map(|b| b.len()).max().unwrap_or(0), cls.join(""))
}
