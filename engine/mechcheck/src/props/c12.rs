//! C12 Kind annotations convert values faithfully and reshape in column-major order.

use crate::engine::*;
use crate::gen::*;
use crate::kinds::*;
use crate::mech::*;
use crate::rval::*;
use num_bigint::BigInt;
use num_rational::Ratio;
use num_traits::{Signed, ToPrimitive, Zero};
use proptest::prelude::*;
use serde::{Deserialize, Serialize};

pub struct C12;

#[derive(Clone, Copy, Debug, PartialEq, Eq, Hash, Serialize, Deserialize)]
pub enum Form { Define, AnnotRef, TypedLit,
  /// `y<K?> := x` (scalars only): the option annotation converts through its own route (Value::convert_to)
  DefineOption }

#[derive(Clone, Debug, Serialize, Deserialize)]
pub enum Case {
  /// scalar conversion K1 -> K2
  Scalar { v: Sc, k2: K, form: Form },
  /// matrix conversion, optionally with a reshape annotation
  Matrix { m: Opnd, k2: K, reshape: Option<(usize, usize)>, form: Form },
  /// scalar-to-matrix fill `s<[K]:r,c> := v`
  Fill { v: Sc, k2: K, rows: usize, cols: usize },
  /// matrix-to-set `s<{K}> := m`
  ToSet { m: Opnd, k2: K },
  /// kinds with no documented conversion: string->number, bool<->number, number->bool
  NoConv { v: Sc, target: String },
}

pub enum Expect { Exactly(Sc), AnyOf(Vec<Sc>), Unjudged(&'static str) }

fn exact(s: &Sc) -> Option<Ratio<BigInt>> {
  match s {
    Sc::U(_, v) => Some(Ratio::from_integer(BigInt::from(*v))),
    Sc::I(_, v) => Some(Ratio::from_integer(BigInt::from(*v))),
    Sc::F64(b) => Ratio::from_float(f64::from_bits(*b)),
    Sc::F32(b) => Ratio::from_float(f32::from_bits(*b)),
    Sc::R(n, d) => Some(Ratio::new(BigInt::from(*n), BigInt::from(*d))),
    _ => None,
  }
}

fn as_f64_host(s: &Sc) -> Option<f64> {
  match s {
    Sc::U(_, v) => Some(*v as f64), Sc::I(_, v) => Some(*v as f64),
    Sc::F64(b) => Some(f64::from_bits(*b)), Sc::F32(b) => Some(f32::from_bits(*b) as f64),
    Sc::R(n, d) => Some(*n as f64 / *d as f64),
    _ => None,
  }
}

/// the specified conversion of one scalar to kind k2
pub fn convert(s: &Sc, k2: K) -> Expect {
  use Expect::*;
  let k1 = match sc_kind(s) { Some(k) => k, None => return Unjudged("non-numeric") };
  if k1 == k2 { return Exactly(s.clone()); }
  if k1 == K::C64 || k2 == K::C64 {
    // real -> complex: (v, 0) when v is exactly an f64; complex -> real has no documented rule
    if k2 == K::C64 { if let Some(x) = as_f64_host(s) { if exact(s).map(|e| Ratio::from_float(x) == Some(e)).unwrap_or(false) { return Exactly(Sc::C(x.to_bits(), 0f64.to_bits())); } } }
    return Unjudged("complex");
  }
  if k2.is_int() {
    match s {
      Sc::U(..) | Sc::I(..) => { let v = sc_int(s).unwrap(); if k2.fits(&v) { Exactly(k2.int_sc(&v)) } else { Unjudged("int-narrowing-unrepresentable") } }
      Sc::F64(_) | Sc::F32(_) => {
        let x = as_f64_host(s).unwrap();
        if x.is_nan() { return Unjudged("nan-to-int"); }
        if x.is_infinite() { return Exactly(k2.int_sc(&(if x > 0.0 { k2.max_int() } else { k2.min_int() }))); }
        let t = exact(s).unwrap().trunc().to_integer();
        let c = if t > k2.max_int() { k2.max_int() } else if t < k2.min_int() { k2.min_int() } else { t };
        Exactly(k2.int_sc(&c))
      }
      Sc::R(..) => { let e = exact(s).unwrap(); if e.is_integer() && k2.fits(&e.to_integer()) { Exactly(k2.int_sc(&e.to_integer())) } else { Unjudged("rational-to-int") } }
      _ => Unjudged("other"),
    }
  } else if k2.is_float() {
    let mk = |x: f64| if k2 == K::F32 { f32b(x as f32) } else { f64b(x) };
    match s {
      Sc::U(_, v) => { let a = if k2 == K::F32 { f32b(*v as f32) } else { f64b(*v as f64) }; let b = mk(*v as f64); if a == b { Exactly(a) } else { AnyOf(vec![a, b]) } }
      Sc::I(_, v) => { let a = if k2 == K::F32 { f32b(*v as f32) } else { f64b(*v as f64) }; let b = mk(*v as f64); if a == b { Exactly(a) } else { AnyOf(vec![a, b]) } }
      Sc::F64(b) => Exactly(mk(f64::from_bits(*b))),
      Sc::F32(b) => Exactly(mk(f32::from_bits(*b) as f64)),
      Sc::R(n, d) => {
        let x = *n as f64 / *d as f64;
        let mut v = vec![mk(x)];
        if k2 == K::F32 { v.push(f32b(*n as f32 / *d as f32)); }
        // neighbours (division of rounded operands may be off by one ulp from the true quotient)
        if k2 == K::F64 { v.push(f64b(f64::from_bits(x.to_bits().wrapping_add(1)))); v.push(f64b(f64::from_bits(x.to_bits().wrapping_sub(1)))); }
        if Ratio::from_float(x) == exact(s) { Exactly(mk(x)) } else { AnyOf(v) }
      }
      _ => Unjudged("other"),
    }
  } else if k2 == K::R64 {
    match exact(s) {
      // floats with a long binary expansion may legitimately be approximated (0.1 → 1/10): only short dyadics are judged
      Some(e) if matches!(s, Sc::F64(_) | Sc::F32(_)) && (e.denom() > &BigInt::from(1u64 << 20) || e.numer().abs() > BigInt::from(1u64 << 40)) => Unjudged("float-to-rational-approximation"),
      Some(e) => match (e.numer().to_i64(), e.denom().to_i64()) { (Some(n), Some(d)) => Exactly(Sc::R(n, d)), _ => Unjudged("rational-overflow") },
      None => Unjudged("nonfinite-to-rational"),
    }
  } else { Unjudged("other") }
}

fn meets(e: &Expect, got: &RVal) -> Result<(), String> {
  match (e, got) {
    (Expect::Unjudged(_), _) => Ok(()),
    (Expect::Exactly(s), RVal::S(g)) => if g == s { Ok(()) } else { Err(format!("expected {} got {}", s.show(), g.show())) },
    (Expect::AnyOf(v), RVal::S(g)) => if v.contains(g) { Ok(()) } else { Err(format!("expected one of [{}] got {}", v.iter().map(|s| s.show()).collect::<Vec<_>>().join(", "), g.show())) },
    (_, other) => Err(format!("expected a scalar, got {}", other.show())),
  }
}

// ------------------------------------------------------------------------------------------

fn value_for(k1: K) -> BoxedStrategy<Sc> {
  // boundary-heavy: conversions are about representability
  prop_oneof![2 => sc_strategy(k1, Pool::Boundary), 2 => sc_strategy(k1, Pool::Mixed), 1 => sc_strategy(k1, Pool::Small)].boxed()
}

fn small_value_for(k1: K) -> BoxedStrategy<Sc> { prop_oneof![3 => sc_strategy(k1, Pool::Small), 1 => sc_strategy(k1, Pool::Boundary)].boxed() }

fn form_strategy() -> BoxedStrategy<Form> { prop_oneof![3 => Just(Form::Define), 2 => Just(Form::AnnotRef), 1 => Just(Form::TypedLit), 2 => Just(Form::DefineOption)].boxed() }

fn reshapes(n: usize) -> Vec<(usize, usize)> { (1..=n).filter(|r| n % r == 0).map(|r| (r, n / r)).collect() }

impl Prop for C12 {
  type Case = Case;
  const ID: &'static str = "C12";
  fn budget(t: Tier) -> u32 { t.pick(20_000, 150_000) }
  fn strategy(_t: Tier, _k: &Known) -> BoxedStrategy<Case> {
    let kinds = ALL_KINDS.to_vec();
    let scalar = (pick(kinds.clone()), pick(kinds.clone()), form_strategy()).prop_flat_map(|(k1, k2, form)| value_for(k1).prop_map(move |v| Case::Scalar { v, k2, form })).boxed();
    let matrix = (pick(kinds.clone()), pick(kinds.clone()), form_strategy(), prop_oneof![Just((1usize, 1usize)), (2usize..=6).prop_map(|n| (1, n)), (2usize..=6).prop_map(|n| (n, 1)), (2usize..=4, 2usize..=4)], 0u8..4, any::<proptest::sample::Index>())
      .prop_flat_map(|(k1, k2, form, (r, c), rsel, ri)| {
        proptest::collection::vec(small_value_for(k1), r * c).prop_map(move |data| {
          let n = r * c;
          let reshape = match rsel {
            0 => None,
            1 | 2 => { let opts = reshapes(n); Some(opts[ri.index(opts.len())]) }
            _ => { // unequal element count
              let bad = [(r + 1, c), (r, c + 1), (1, n + 1), (n.max(2) - 1, 1), (r + 1, c + 1)];
              Some(bad[ri.index(bad.len())])
            }
          };
          Case::Matrix { m: Opnd { scalar: false, rows: r, cols: c, data }, k2, reshape, form: if form == Form::DefineOption || (reshape.is_some() && form == Form::TypedLit) { Form::Define } else { form } }
        })
      }).boxed();
    let fill = (pick(kinds.clone()), pick(kinds.clone()), 1usize..=4, 1usize..=4).prop_flat_map(|(k1, k2, rows, cols)| small_value_for(k1).prop_map(move |v| Case::Fill { v, k2, rows, cols })).boxed();
    let toset = (pick(kinds.clone()), pick(kinds.clone()), prop_oneof![(1usize..=1, 2usize..=6), (2usize..=6, 1usize..=1), (2usize..=3, 2usize..=3)])
      .prop_flat_map(|(k1, k2, (r, c))| proptest::collection::vec(prop_oneof![2 => sc_strategy(k1, Pool::Small), 1 => sc_strategy(k1, Pool::Mixed)], r * c).prop_map(move |data| Case::ToSet { m: Opnd { scalar: false, rows: r, cols: c, data }, k2 })).boxed();
    let noconv = prop_oneof![
      (str_strategy(), pick(kinds.clone())).prop_map(|(v, k)| Case::NoConv { v, target: k.name().to_string() }),
      (prop_oneof![Just("7"), Just("1.5"), Just("abc")], pick(kinds.clone())).prop_map(|(s, k)| Case::NoConv { v: Sc::Str(s.to_string()), target: k.name().to_string() }),
      (bool_strategy(), pick(kinds.clone())).prop_map(|(v, k)| Case::NoConv { v, target: k.name().to_string() }),
      (pick(kinds.clone())).prop_flat_map(|k| sc_strategy(k, Pool::Small)).prop_map(|v| Case::NoConv { v, target: "bool".to_string() }),
    ].boxed();
    prop_oneof![5 => scalar, 5 => matrix, 1 => fill, 2 => toset, 1 => noconv].boxed()
  }
  fn fixed_cases(_t: Tier) -> Vec<Case> {
    // every ordered kind pair once as scalar (value 7, representable everywhere), and every (r,c)->(r',c') reshape up to 16 elements
    let mut out = vec![];
    let seven = |k: K| -> Sc { match k { _ if k.is_int() => k.int_sc(&BigInt::from(7)), K::F32 => f32b(7.0), K::F64 => f64b(7.0), K::R64 => Sc::R(7, 1), _ => Sc::C(7f64.to_bits(), 0f64.to_bits()) } };
    for k1 in ALL_KINDS { for k2 in ALL_KINDS { for form in [Form::Define, Form::AnnotRef, Form::DefineOption] { out.push(Case::Scalar { v: seven(k1), k2, form }); } } }
    for n in 1..=16usize {
      for (r, c) in reshapes(n) {
        for (r2, c2) in reshapes(n) {
          let data: Vec<Sc> = (0..n).map(|i| f64b(i as f64 + 1.0)).collect();
          out.push(Case::Matrix { m: Opnd { scalar: false, rows: r, cols: c, data }, k2: if (r + c2) % 2 == 0 { K::F64 } else { K::U8 }, reshape: Some((r2, c2)), form: Form::Define });
        }
      }
    }
    out
  }
  fn exhaustive_note(_t: Tier) -> Option<String> { Some("exhaustive over: all 14x14 ordered kind pairs (scalar 7, define and annotated-reference forms) and all (r,c)->(r',c') reshapes of equal element count up to 16 elements; values and the remaining forms are sampled".into()) }
  fn rule() -> &'static str {
    "case ∈ {scalar K1→K2, matrix K1→K2 (row/column/general, optional reshape annotation with equal or unequal element count), \
     scalar-to-matrix fill, matrix-to-set, no-conversion pairs}; forms: annotated define, annotated reference, typed literal, option-annotated define (scalars); values from \
     boundary/mixed pools. Oracle: exact rational model of each value. Non-trivial = K1≠K2 or a reshape/set/fill; distinct key = \
     (case class, K1, K2, carrier, value class, outcome)."
  }
  fn assumptions() -> Vec<String> {
    vec![
      "integer→narrower integer of an unrepresentable value, NaN→integer, and complex→real are not fixed by the statement: labelled, not judged".into(),
      "a conversion that is rejected is judged only if the (K1,K2,carrier) combination is in baselines/C12_supported.json (observed supported at the pinned commit); otherwise it counts as a kind with no conversion".into(),
      "integer→float of an unrepresentable value: the direct cast or the cast through f64 is accepted".into(),
    ]
  }
  fn describe(c: &Case) -> String { render(c).join("; ") }
  fn check(c: &Case, _cx: &Cx) -> Verdict { check(c) }
}

fn conv_stmt(form: Form, src_name: &str, src_lit: Option<String>, target_annot: &str) -> String {
  match form {
    Form::Define => format!("y<{}> := {}", target_annot, src_name),
    Form::DefineOption => format!("y<{}?> := {}", target_annot, src_name),
    Form::AnnotRef => format!("y := {}<{}>", src_name, target_annot),
    Form::TypedLit => match src_lit { Some(l) => format!("y := {}<{}>", l, target_annot), None => format!("y<{}> := {}", target_annot, src_name) },
  }
}

/// plain literal text for a typed-literal source, when the value can be written as one unannotated token
fn plain_literal(s: &Sc) -> Option<String> {
  match s {
    Sc::F64(b) => { let x = f64::from_bits(*b); if x.is_finite() && !x.is_sign_negative() { f64_plain(x) } else { None } }
    _ => None,
  }
}

fn render(c: &Case) -> Vec<String> {
  match c {
    Case::Scalar { v, k2, form } => { let mut st = define_scalar("x", v, false); st.push(conv_stmt(*form, "x", plain_literal(v), k2.name())); st }
    Case::Matrix { m, k2, reshape, form } => {
      let mut st = define_operand("x", m, false);
      let annot = match reshape { Some((r, c)) => format!("[{}]:{},{}", k2.name(), r, c), None => format!("[{}]", k2.name()) };
      st.push(conv_stmt(if *form == Form::TypedLit { Form::Define } else { *form }, "x", None, &annot));
      st
    }
    Case::Fill { v, k2, rows, cols } => { let mut st = define_scalar("x", v, false); st.push(format!("y<[{}]:{},{}> := x", k2.name(), rows, cols)); st }
    Case::ToSet { m, k2 } => { let mut st = define_operand("x", m, false); st.push(format!("y<{{{}}}> := x", k2.name())); st }
    Case::NoConv { v, target } => { let mut st = define_scalar("x", v, false); st.push(format!("y<{}> := x", target)); st }
  }
}

fn supported() -> &'static std::collections::HashSet<String> {
  static S: std::sync::OnceLock<std::collections::HashSet<String>> = std::sync::OnceLock::new();
  S.get_or_init(|| {
    let p = format!("{}/baselines/C12_supported.json", verif_dir());
    std::fs::read_to_string(p).ok().and_then(|t| serde_json::from_str::<Vec<String>>(&t).ok()).map(|v| v.into_iter().collect()).unwrap_or_default()
  })
}

fn value_class(s: &Sc, k2: K) -> &'static str {
  match convert(s, k2) {
    Expect::Unjudged(w) => w,
    Expect::AnyOf(_) => "rounded",
    Expect::Exactly(r) => {
      match (exact(s), exact(&r)) { (Some(a), Some(b)) if a == b => "representable", (Some(_), Some(_)) => "clamped-or-truncated", _ => "special" }
    }
  }
}

fn check(c: &Case) -> Verdict {
  let mut v = Verdict::new();
  let st = render(c);
  let mut sess = Session::new();
  let n = st.len();
  for s in &st[..n - 1] { match sess.run(s) { Outcome::Ok(_) => {} o => { v.harness(format!("setup `{}` gave {}", s, o.show())); return v; } } }
  // verify source by read-back
  let src_expected: RVal = match c { Case::Scalar { v, .. } | Case::Fill { v, .. } | Case::NoConv { v, .. } => RVal::S(v.clone()), Case::Matrix { m, .. } | Case::ToSet { m, .. } => m.rval() };
  if sess.snapshot().get("x") != Some(&src_expected) { v.harness(format!("source reads back {:?} instead of {}", sess.snapshot().get("x").map(|r| r.show()), src_expected.show())); return v; }
  let out = sess.run(&st[n - 1]);
  if let Outcome::NotCode = out { v.harness(format!("`{}` parsed as prose", st[n - 1])); return v; }
  if let Outcome::Panic(m) = &out { v.fail("C12|panic-escaped", m.clone()); return v; }
  // the source must be unchanged
  if sess.snapshot().get("x") != Some(&src_expected) { v.fail("C12|source-modified", format!("`{}` changed x to {:?}", st[n - 1], sess.snapshot().get("x").map(|r| r.show()))); return v; }
  let got: Option<RVal> = if out.is_ok() { sess.snapshot().get("y").cloned() } else { None };
  if out.is_ok() && got.is_none() { v.harness("y not defined after a successful conversion"); return v; }

  match c {
    Case::Scalar { v: s, k2, form } => {
      let k1 = sc_kind(s).unwrap();
      let vc = value_class(s, *k2);
      v.label(format!("scalar:{}>{}", k1.name(), k2.name()));
      v.label(format!("form:{:?}", form));
      v.label(format!("value:{}", vc));
      if k1 != *k2 { v.key = Some(format!("S|{}|{}|{:?}|{}|{}", k1.name(), k2.name(), form, vc, out.class())); }
      let skey = format!("{}>{}|S|{:?}", k1.name(), k2.name(), form);
      match &got {
        Some(g) => {
          v.label(format!("supported:{}", skey));
          if g.kind() != k2.name() { v.fail(format!("C12|result-kind|S|{}>{}", k1.name(), k2.name()), format!("`{}` produced kind {}", st[n - 1], g.kind())); return v; }
          if let Err(m) = meets(&convert(s, *k2), g) { v.fail(format!("C12|scalar-value|{}>{}|{}", k1.name(), k2.name(), vc), format!("{} → {}: {}", s.show(), k2.name(), m)); }
        }
        None => {
          if matches!(convert(s, *k2), Expect::Unjudged(_)) { v.label("rejected-unjudged-value"); }
          else if supported().contains(&skey) { v.fail(format!("C12|supported-conversion-rejected|{}", skey), format!("`{}` (x = {}) rejected: {}", st[n - 1], s.show(), out.show())); }
          else { v.label(format!("no-conversion:{}", skey)); }
        }
      }
    }
    Case::Matrix { m, k2, reshape, form } => {
      let k1 = sc_kind(&m.data[0]).unwrap();
      let carrier = m.form();
      let count = m.rows * m.cols;
      let (tr, tc, equal) = match reshape { Some((r, c)) => (*r, *c, r * c == count), None => (m.rows, m.cols, true) };
      let cls = match reshape { None => "convert", Some(_) if equal => "reshape", Some(_) => "reshape-unequal" };
      v.label(format!("matrix:{}:{}>{}", cls, k1.name(), k2.name()));
      v.label(format!("carrier:{}", carrier));
      v.key = Some(format!("M|{}|{}|{}|{}|{}x{}>{}x{}|{}", cls, k1.name(), k2.name(), carrier, m.rows, m.cols, tr, tc, out.class()));
      let skey = format!("{}>{}|{}|{}|{:?}", k1.name(), k2.name(), carrier, if reshape.is_some() { "reshape" } else { "convert" }, form);
      if !equal {
        if let Some(g) = &got { v.fail(format!("C12|unequal-count-accepted|{}>{}x{}", carrier, tr.min(9), tc.min(9)), format!("`{}` on a {}x{} matrix evaluated to {}", st[n - 1], m.rows, m.cols, g.show())); }
        return v;
      }
      match &got {
        Some(g) => {
          v.label(format!("supported:{}", skey));
          let RVal::Mat { kind, rows, cols, data } = g else { v.fail(format!("C12|matrix-not-matrix|{}", skey), format!("result {}", g.show())); return v; };
          if kind != k2.name() { v.fail(format!("C12|result-kind|M|{}>{}", k1.name(), k2.name()), format!("`{}` produced element kind {}", st[n - 1], kind)); return v; }
          if (*rows, *cols) != (tr, tc) { v.fail(format!("C12|matrix-shape|{}|{}", carrier, cls), format!("`{}` on a {}x{} matrix gave {}x{} expected {}x{}", st[n - 1], m.rows, m.cols, rows, cols, tr, tc)); return v; }
          for (i, (src, dst)) in m.data.iter().zip(data.iter()).enumerate() {
            if let Err(msg) = meets(&convert(src, *k2), dst) {
              v.fail(format!("C12|matrix-element|{}|{}>{}|{}", cls, k1.name(), k2.name(), value_class(src, *k2)), format!("element {} (column-major) of `{}`: {} → {}", i, st[n - 1], src.show(), msg));
              return v;
            }
          }
        }
        None => {
          if m.data.iter().any(|e| matches!(convert(e, *k2), Expect::Unjudged(_))) { v.label("rejected-unjudged-value"); }
          else if supported().contains(&skey) { v.fail(format!("C12|supported-conversion-rejected|{}", skey), format!("`{}` rejected: {}", st[n - 1], out.show())); }
          else { v.label(format!("no-conversion:{}", skey)); }
        }
      }
    }
    Case::Fill { v: s, k2, rows, cols } => {
      let k1 = sc_kind(s).unwrap();
      v.label(format!("fill:{}>{}", k1.name(), k2.name()));
      v.key = Some(format!("F|{}|{}|{}", k1.name(), k2.name(), out.class()));
      let skey = format!("{}>{}|fill", k1.name(), k2.name());
      match &got {
        Some(g) => {
          v.label(format!("supported:{}", skey));
          let RVal::Mat { kind, rows: r, cols: c, data } = g else { v.fail("C12|fill-not-matrix", format!("result {}", g.show())); return v; };
          if kind != k2.name() || (*r, *c) != (*rows, *cols) { v.fail(format!("C12|fill-shape-or-kind|{}>{}", k1.name(), k2.name()), format!("`{}` gave {}", st[n - 1], g.show())); return v; }
          for d in data { if let Err(msg) = meets(&convert(s, *k2), d) { v.fail(format!("C12|fill-element|{}>{}", k1.name(), k2.name()), format!("{} → {}", s.show(), msg)); return v; } }
        }
        None => { if matches!(convert(s, *k2), Expect::Unjudged(_)) { v.label("rejected-unjudged-value"); } else if supported().contains(&skey) { v.fail(format!("C12|supported-conversion-rejected|{}", skey), format!("`{}` rejected: {}", st[n - 1], out.show())); } else { v.label(format!("no-conversion:{}", skey)); } }
      }
    }
    Case::ToSet { m, k2 } => {
      let k1 = sc_kind(&m.data[0]).unwrap();
      v.label(format!("toset:{}>{}", k1.name(), k2.name()));
      v.key = Some(format!("T|{}|{}|{}|{}", k1.name(), k2.name(), m.form(), out.class()));
      let skey = format!("{}>{}|set", k1.name(), k2.name());
      match &got {
        Some(g) => {
          v.label(format!("supported:{}", skey));
          let RVal::Set { kind, elems, declared } = g else { v.fail("C12|toset-not-set", format!("result {}", g.show())); return v; };
          if kind != k2.name() { v.fail(format!("C12|toset-kind|{}>{}", k1.name(), k2.name()), format!("set kind {}", kind)); return v; }
          // expected: distinct converted elements, as a mathematical set
          let mut want: Vec<RVal> = vec![];
          let mut judged = true;
          for s in &m.data { match convert(s, *k2) { Expect::Exactly(r) => { let r = RVal::S(r); if !want.contains(&r) { want.push(r); } } _ => { judged = false; } } }
          if judged {
            let mut a = elems.clone(); a.sort(); let mut b = want.clone(); b.sort();
            if a != b { v.fail(format!("C12|toset-elements|{}>{}", k1.name(), k2.name()), format!("`{}` on {} gave {} expected the distinct elements {{{}}}", st[n - 1], m.show(), g.show(), want.iter().map(|x| x.show()).collect::<Vec<_>>().join(", "))); return v; }
            if *declared != elems.len() { v.fail("C12|toset-size", format!("set reports {} elements but holds {}", declared, elems.len())); }
          } else { v.label("toset-unjudged"); }
        }
        None => { if m.data.iter().any(|e| matches!(convert(e, *k2), Expect::Unjudged(_))) { v.label("rejected-unjudged-value"); } else if supported().contains(&skey) { v.fail(format!("C12|supported-conversion-rejected|{}", skey), format!("`{}` rejected: {}", st[n - 1], out.show())); } else { v.label(format!("no-conversion:{}", skey)); } }
      }
    }
    Case::NoConv { v: s, target } => {
      v.label(format!("noconv:{}>{}", s.kind(), target));
      v.key = Some(format!("N|{}|{}|{}", s.kind(), target, out.class()));
      if let Some(g) = &got {
        v.fail(format!("C12|no-conversion-accepted|{}>{}", s.kind(), target), format!("`{}` (x = {}) evaluated to {} although no conversion from {} to {} is documented", st[n - 1], s.show(), g.show(), s.kind(), target));
      }
    }
  }
  v
}
