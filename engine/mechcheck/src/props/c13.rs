//! C13 Numeric literals denote the number they spell.

use crate::engine::*;
use crate::gen::*;
use crate::kinds::*;
use crate::mech::*;
use crate::rval::*;
use num_bigint::BigInt;
use num_rational::Ratio;
use num_traits::{Signed, ToPrimitive, Zero};
use proptest::prelude::*;
use serde::{Deserialize, Serialize};

pub struct C13;

#[derive(Clone, Debug, Serialize, Deserialize)]
pub enum Lit {
  /// decimal digits, optional underscores between digits
  Int(String),
  /// whole (may be empty: leading-dot form) and fraction digits
  Float(String, String),
  /// mantissa text (integer or float spelling), upper-case E?, exponent sign (None / Some(false)=+ / Some(true)=-), exponent
  Sci(String, bool, Option<bool>, u16),
  /// base ∈ {2,8,10,16} and digit text (case and underscores as written)
  Based(u8, String),
  Rational(String, String),
  /// optional real part, imaginary part, subtract?, 'j' instead of 'i'
  Complex(Option<String>, String, bool, bool),
}

#[derive(Clone, Debug, Serialize, Deserialize)]
pub enum Typing { None, Suffix(K), Annot(K) }

#[derive(Clone, Debug, Serialize, Deserialize)]
pub struct Case { pub lit: Lit, pub neg: bool, pub typing: Typing }

fn digits(min: usize, max: usize) -> BoxedStrategy<String> {
  proptest::collection::vec(0u8..10, min..=max).prop_map(|v| v.iter().map(|d| (b'0' + d) as char).collect()).boxed()
}
fn with_underscores(s: BoxedStrategy<String>) -> BoxedStrategy<String> {
  (s, any::<u32>(), proptest::bool::weighted(0.25)).prop_map(|(s, mask, on)| {
    if !on || s.len() < 2 { return s; }
    let mut out = String::new();
    for (i, c) in s.chars().enumerate() { if i > 0 && (mask >> (i % 32)) & 1 == 1 { out.push('_'); } out.push(c); }
    out
  }).boxed()
}

fn int_lit() -> BoxedStrategy<String> {
  let boundary: Vec<String> = {
    let mut v = vec![];
    for k in INT_KINDS { for d in [-1i32, 0, 1] { let x = k.max_int() + d; v.push(x.to_string()); let y = -k.min_int() + d; if y >= BigInt::zero() { v.push(y.to_string()); } } }
    for p in [24u32, 53, 63, 64] { for d in [-1i32, 0, 1] { v.push(((BigInt::from(1) << p) + d).to_string()); } }
    v
  };
  prop_oneof![
    4 => with_underscores(digits(1, 6)),
    2 => with_underscores(digits(7, 25)),
    1 => with_underscores(digits(26, 40)),
    3 => pick(boundary),
  ].boxed()
}

fn mant() -> BoxedStrategy<String> {
  prop_oneof![
    digits(1, 4),
    (digits(1, 4), digits(1, 6)).prop_map(|(a, b)| format!("{}.{}", a, b)),
    digits(1, 5).prop_map(|b| format!(".{}", b)),
    (digits(1, 2), digits(10, 18)).prop_map(|(a, b)| format!("{}.{}", a, b)),
  ].boxed()
}

fn based() -> BoxedStrategy<Lit> {
  let hexd = proptest::collection::vec(prop_oneof![(0u8..10).prop_map(|d| (b'0' + d) as char), (0u8..6).prop_map(|d| (b'a' + d) as char), (0u8..6).prop_map(|d| (b'A' + d) as char)], 1..=16).prop_map(|v| v.into_iter().collect::<String>()).boxed();
  let octd = proptest::collection::vec((0u8..8).prop_map(|d| (b'0' + d) as char), 1..=22).prop_map(|v| v.into_iter().collect::<String>()).boxed();
  let bind = proptest::collection::vec((0u8..2).prop_map(|d| (b'0' + d) as char), 1..=64).prop_map(|v| v.into_iter().collect::<String>()).boxed();
  prop_oneof![
    3 => with_underscores(hexd).prop_map(|d| Lit::Based(16, d)),
    1 => prop_oneof![Just("7fffffffffffffff"), Just("8000000000000000"), Just("ffffffffffffffff"), Just("FFFFFFFFFFFFFFFF"), Just("10000000000000000"), Just("7FFFFFFFFFFFFFFF")].prop_map(|s| Lit::Based(16, s.to_string())),
    2 => with_underscores(octd).prop_map(|d| Lit::Based(8, d)),
    2 => with_underscores(bind).prop_map(|d| Lit::Based(2, d)),
    2 => with_underscores(digits(1, 19)).prop_map(|d| Lit::Based(10, d)),
    1 => prop_oneof![Just("9223372036854775807"), Just("9223372036854775808")].prop_map(|s| Lit::Based(10, s.to_string())),
  ].boxed()
}

fn lit_strategy() -> BoxedStrategy<Lit> {
  prop_oneof![
    4 => int_lit().prop_map(Lit::Int),
    3 => (prop_oneof![3 => digits(1, 8), 1 => Just(String::new()), 1 => digits(15, 25)], prop_oneof![3 => digits(1, 8), 1 => digits(15, 25)]).prop_map(|(a, b)| Lit::Float(a, b)),
    4 => (mant(), any::<bool>(), prop_oneof![Just(None), Just(Some(false)), Just(Some(true))], prop_oneof![4 => 0u16..25, 1 => 290u16..330, 1 => 25u16..310]).prop_map(|(m, e, s, x)| Lit::Sci(m, e, s, x)),
    4 => based(),
    2 => (prop_oneof![digits(1, 4), digits(17, 19)], prop_oneof![4 => digits(1, 4), 1 => Just("0".to_string()), 1 => Just("00".to_string())]).prop_map(|(n, d)| Lit::Rational(n, d)),
    2 => (proptest::option::of(prop_oneof![digits(1, 3), (digits(1, 2), digits(1, 3)).prop_map(|(a, b)| format!("{}.{}", a, b))]), prop_oneof![digits(1, 3), (digits(1, 2), digits(1, 3)).prop_map(|(a, b)| format!("{}.{}", a, b))], any::<bool>(), any::<bool>()).prop_map(|(re, im, sub, j)| Lit::Complex(re, im, sub, j)),
  ].boxed()
}

impl Prop for C13 {
  type Case = Case;
  const ID: &'static str = "C13";
  fn budget(t: Tier) -> u32 { t.pick(20_000, 400_000) }
  fn strategy(_t: Tier, _k: &Known) -> BoxedStrategy<Case> {
    (lit_strategy(), proptest::bool::weighted(0.3), 0u8..10, pick(ALL_KINDS.to_vec())).prop_map(|(lit, neg, tsel, k)| {
      let typing = match (&lit, tsel) {
        (Lit::Int(_), 0 | 1) if matches!(k, K::U8 | K::U16 | K::U32 | K::U64 | K::U128 | K::F32 | K::F64) => Typing::Suffix(k),
        (Lit::Int(_) | Lit::Float(..) | Lit::Sci(..) | Lit::Based(..), 2 | 3 | 4) if k != K::C64 && k != K::R64 => Typing::Annot(k),
        _ => Typing::None,
      };
      Case { lit, neg, typing }
    }).boxed()
  }
  fn fixed_cases(_t: Tier) -> Vec<Case> {
    // the spellings the specification itself lists, and kind boundaries in suffix/annotation form
    let mut out = vec![];
    let n = |lit: Lit| Case { lit, neg: false, typing: Typing::None };
    out.push(n(Lit::Sci("1".into(), false, Some(true), 3)));
    out.push(n(Lit::Sci("2.5".into(), false, None, 10)));
    out.push(n(Lit::Float("".into(), "123".into())));
    out.push(n(Lit::Rational("3".into(), "4".into())));
    out.push(n(Lit::Based(16, "1A3F".into())));
    out.push(n(Lit::Based(8, "755".into())));
    out.push(n(Lit::Based(2, "1010".into())));
    out.push(Case { lit: Lit::Int("1234".into()), neg: false, typing: Typing::Annot(K::U8) });
    for k in INT_KINDS {
      for d in [-1i32, 0, 1] {
        let hi = k.max_int() + d;
        out.push(Case { lit: Lit::Int(hi.to_string()), neg: false, typing: Typing::Annot(k) });
        if k.is_unsigned() { out.push(Case { lit: Lit::Int(hi.to_string()), neg: false, typing: Typing::Suffix(k) }); }
        if k.is_signed() { let lo = -k.min_int() + d; out.push(Case { lit: Lit::Int(lo.to_string()), neg: true, typing: Typing::Annot(k) }); }
      }
    }
    out
  }
  fn rule() -> &'static str {
    "case = one literal spelling generated from the grammar of spec §4.2 (decimal integers up to 40 digits with underscores, floats incl. \
     leading-dot, scientific with integer/float mantissa, e/E, +/-/no exponent sign, exponents to ±330, 0x/0o/0b/0d with mixed case and \
     underscores, rationals incl. zero denominators, complex a±bi/j) optionally negated and optionally carrying a kind suffix or annotation, \
     plus the specification's own examples and every integer-kind boundary ±1. Oracle: exact big-rational value of the spelling. \
     Non-trivial = not a plain integer < 2^53; distinct key = (form, typing, magnitude class, outcome class)."
  }
  fn assumptions() -> Vec<String> {
    vec![
      "a spelling the parser does not accept as a number is only a violation for forms the specification's grammar lists (integer-mantissa scientific literals, underscores inside based literals follow the hex-digit rule of the implementation's own tokenizer)".into(),
      "a typed integer that does not fit its kind may be clamped to the kind's range or rejected; a float literal annotated with an integer kind may be truncated, rounded or rejected".into(),
      "-0.0 and 0.0 are not distinguished in complex parts".into(),
    ]
  }
  fn describe(c: &Case) -> String { render(c) }
  fn check(c: &Case, _cx: &Cx) -> Verdict { check(c) }
}

fn lit_text(l: &Lit) -> String {
  match l {
    Lit::Int(d) => d.clone(),
    Lit::Float(a, b) => format!("{}.{}", a, b),
    Lit::Sci(m, up, sign, x) => format!("{}{}{}{}", m, if *up { "E" } else { "e" }, match sign { None => "", Some(false) => "+", Some(true) => "-" }, x),
    Lit::Based(b, d) => format!("0{}{}", match b { 2 => "b", 8 => "o", 10 => "d", _ => "x" }, d),
    Lit::Rational(n, d) => format!("{}/{}", n, d),
    Lit::Complex(re, im, sub, j) => format!("{}{}{}", re.as_ref().map(|r| format!("{}{}", r, if *sub { "-" } else { "+" })).unwrap_or_default(), im, if *j { "j" } else { "i" }),
  }
}

fn render(c: &Case) -> String {
  let t = lit_text(&c.lit);
  let typed = match &c.typing { Typing::None => t, Typing::Suffix(k) => format!("{}{}", t, k.name()), Typing::Annot(k) => format!("{}<{}>", t, k.name()) };
  if c.neg { format!("-{}", typed) } else { typed }
}

fn strip(s: &str) -> String { s.chars().filter(|c| *c != '_').collect() }

/// exact value of the unsigned spelling (None for complex)
fn exact_value(l: &Lit) -> Option<Ratio<BigInt>> {
  let dec = |s: &str| -> BigInt { let s = strip(s); if s.is_empty() { BigInt::zero() } else { s.parse::<BigInt>().unwrap() } };
  let ten = |n: usize| -> BigInt { let mut r = BigInt::from(1); for _ in 0..n { r *= 10; } r };
  let dec_frac = |s: &str| -> Ratio<BigInt> {
    match s.split_once('.') { Some((a, b)) => Ratio::new(dec(a) * ten(strip(b).len()) + dec(b), ten(strip(b).len())), None => Ratio::from_integer(dec(s)) }
  };
  match l {
    Lit::Int(d) => Some(Ratio::from_integer(dec(d))),
    Lit::Float(a, b) => Some(dec_frac(&format!("{}.{}", a, b))),
    Lit::Sci(m, _, sign, x) => { let base = dec_frac(m); let p = Ratio::from_integer(ten(*x as usize)); Some(if *sign == Some(true) { base / p } else { base * p }) }
    Lit::Based(b, d) => BigInt::parse_bytes(strip(d).as_bytes(), *b as u32).map(Ratio::from_integer),
    Lit::Rational(n, d) => { let dd = dec(d); if dd.is_zero() { None } else { Some(Ratio::new(dec(n), dd)) } }
    Lit::Complex(..) => None,
  }
}

/// nearest f64 of a decimal spelling, via the host's correctly rounded parser
fn host_f64(l: &Lit) -> Option<f64> {
  match l {
    Lit::Int(d) => strip(d).parse::<f64>().ok(),
    Lit::Float(a, b) => format!("{}.{}", if a.is_empty() { "0" } else { a }, b).parse::<f64>().ok(),
    Lit::Sci(m, _, sign, x) => { let m = if m.starts_with('.') { format!("0{}", m) } else { m.clone() }; format!("{}e{}{}", m, if *sign == Some(true) { "-" } else { "" }, x).parse::<f64>().ok() }
    _ => None,
  }
}

fn form(l: &Lit) -> &'static str {
  match l {
    Lit::Int(d) => if d.contains('_') { "int_" } else { "int" },
    Lit::Float(a, _) => if a.is_empty() { "dotfloat" } else { "float" },
    Lit::Sci(m, ..) => if m.contains('.') { "sci-float-mantissa" } else { "sci-int-mantissa" },
    Lit::Based(b, d) => match (b, d.contains('_')) { (16, false) => "hex", (16, true) => "hex_", (8, false) => "oct", (8, true) => "oct_", (2, false) => "bin", (2, true) => "bin_", (_, false) => "dec", _ => "dec_" },
    Lit::Rational(..) => "rational",
    Lit::Complex(..) => "complex",
  }
}

fn check(c: &Case) -> Verdict {
  let mut v = Verdict::new();
  let text = render(c);
  let out = eval(&text);
  let f = form(&c.lit);
  let ty = match &c.typing { Typing::None => "untyped".to_string(), Typing::Suffix(k) => format!("suffix-{}", k.name()), Typing::Annot(k) => format!("annot-{}", k.name()) };
  v.label(format!("form:{}", f));
  v.label(format!("typing:{}", ty));
  if c.neg { v.label("negated"); }
  if let Outcome::Panic(m) = &out { v.fail(format!("C13|panic-escaped|{}", f), m.clone()); return v; }
  let ev = exact_value(&c.lit);
  let mag = match &ev { None => "n/a", Some(r) => { let a = r.abs(); if a < Ratio::from_integer(BigInt::from(1u64 << 53)) { if r.is_integer() { "small-int" } else { "fraction" } } else if a < Ratio::from_integer(BigInt::from(1u128 << 64)) { "2^53..2^64" } else { "huge" } } };
  let trivial = matches!(c.lit, Lit::Int(_)) && matches!(c.typing, Typing::None) && mag == "small-int" && !c.neg && f == "int";
  if !trivial { v.key = Some(format!("{}|{}|{}|{}|{}", f, ty, mag, c.neg, out.class())); }
  let sgn = |x: f64| if c.neg { -x } else { x };
  let reject_ok = |v: &mut Verdict, why: &str| { v.label(format!("rejected-allowed:{}", why)); };

  match (&c.lit, &c.typing) {
    // ---------------- untyped
    (Lit::Int(_) | Lit::Float(..) | Lit::Sci(..), Typing::None) => {
      let want = sgn(host_f64(&c.lit).unwrap());
      match &out {
        Outcome::Ok(RVal::S(Sc::F64(b))) => {
          if f64b(f64::from_bits(*b)) != f64b(want) {
            let cause = if matches!(c.lit, Lit::Sci(..)) { "sci-not-correctly-rounded" } else { "wrong-value" };
            v.fail(format!("C13|{}|{}", cause, f), format!("`{}` evaluated to {:?}, the nearest f64 of the spelling is {:?}", text, f64::from_bits(*b), want));
          }
        }
        Outcome::Ok(other) => v.fail(format!("C13|wrong-kind|{}", f), format!("`{}` evaluated to {}", text, other.show())),
        Outcome::NotCode | Outcome::ParseErr(_) | Outcome::Err(_) => {
          let cause = if f == "sci-int-mantissa" { "sci-int-mantissa-rejected" } else { "grammar-literal-rejected" };
          v.fail(format!("C13|{}|{}|{}", cause, f, out.class()), format!("`{}` is a numeric literal of the specified grammar but gave {}", text, out.show()));
        }
        _ => {}
      }
    }
    (Lit::Based(base, d), Typing::None) => {
      let val = ev.as_ref().map(|r| r.to_integer());
      let val = val.map(|x| if c.neg { -x } else { x });
      let fits = val.as_ref().map(|x| K::I64.fits(x)).unwrap_or(false);
      match (&out, fits) {
        (Outcome::Ok(RVal::S(Sc::I(64, got))), true) => { if BigInt::from(*got) != val.clone().unwrap() { v.fail(format!("C13|wrong-value|{}", f), format!("`{}` evaluated to {} expected {}", text, got, val.unwrap())); } }
        (Outcome::Ok(other), true) => v.fail(format!("C13|wrong-kind|{}", f), format!("`{}` evaluated to {}", text, other.show())),
        (Outcome::Ok(other), false) => {
          // does not fit i64: must be rejected (no clamp is documented for bare based literals) — a clamped value is tolerated
          let clamp = if val.as_ref().map(|x| x.is_negative()).unwrap_or(false) { i64::MIN } else { i64::MAX };
          if *other != RVal::S(Sc::I(64, clamp as i128)) { v.fail(format!("C13|overflowing-based-literal-gave-value|{}", f), format!("`{}` does not fit i64 but evaluated to the unrelated value {}", text, other.show())); }
        }
        (_, true) => {
          let cause = if d.contains('_') { "based-underscore-rejected" } else if c.neg && !K::I64.fits(&-val.clone().unwrap()) { "negated-literal-magnitude-overflow" } else { "grammar-literal-rejected" };
          let _ = base;
          v.fail(format!("C13|{}|{}|{}", cause, f, out.class()), format!("`{}` fits i64 but gave {}", text, out.show()));
        }
        (_, false) => reject_ok(&mut v, "based-overflow"),
      }
    }
    (Lit::Rational(n, d), _) => {
      let (nn, dd) = (strip(n).parse::<BigInt>().unwrap(), strip(d).parse::<BigInt>().unwrap());
      if dd.is_zero() {
        if let Outcome::Ok(val) = &out { v.fail("C13|zero-denominator-accepted", format!("`{}` evaluated to {}", text, val.show())); }
      } else if !K::I64.fits(&nn) || !K::I64.fits(&dd) {
        v.label("rational-parts-overflow");
        if let Outcome::Ok(val) = &out {
          let r = Ratio::new(nn.clone(), dd.clone());
          let r = if c.neg { -r } else { r };
          if let RVal::S(Sc::R(a, b)) = val { if Ratio::new(BigInt::from(*a), BigInt::from(*b)) != r { v.fail("C13|overflowing-rational-gave-value", format!("`{}` evaluated to the unrelated value {}", text, val.show())); } }
        }
      } else {
        let r = Ratio::new(nn, dd);
        let r = if c.neg { -r } else { r };
        match &out {
          Outcome::Ok(RVal::S(Sc::R(a, b))) => { if BigInt::from(*a) != *r.numer() || BigInt::from(*b) != *r.denom() { v.fail("C13|rational-not-reduced-or-wrong", format!("`{}` evaluated to {}/{} expected {}", text, a, b, r)); } }
          Outcome::Ok(other) => v.fail("C13|wrong-kind|rational", format!("`{}` evaluated to {}", text, other.show())),
          other => v.fail(format!("C13|grammar-literal-rejected|rational|{}", other.class()), format!("`{}` gave {}", text, other.show())),
        }
      }
    }
    (Lit::Complex(re, im, sub, _), _) => {
      let p = |s: &str| -> f64 { s.parse::<f64>().unwrap() };
      let (mut wr, mut wi) = (re.as_ref().map(|r| p(r)).unwrap_or(0.0), if *sub && re.is_some() { -p(im) } else { p(im) });
      if c.neg { wr = -wr; wi = -wi; }
      let z = |x: f64| if x == 0.0 { 0.0 } else { x };
      match &out {
        Outcome::Ok(RVal::S(Sc::C(a, b))) => { if z(f64::from_bits(*a)) != z(wr) || z(f64::from_bits(*b)) != z(wi) { v.fail("C13|wrong-value|complex", format!("`{}` evaluated to {:?}+{:?}i expected {:?}+{:?}i", text, f64::from_bits(*a), f64::from_bits(*b), wr, wi)); } }
        Outcome::Ok(other) => v.fail("C13|wrong-kind|complex", format!("`{}` evaluated to {}", text, other.show())),
        other => v.fail(format!("C13|grammar-literal-rejected|complex|{}", other.class()), format!("`{}` gave {}", text, other.show())),
      }
    }
    // ---------------- typed
    (lit, Typing::Suffix(k) | Typing::Annot(k)) => {
      let Some(r) = ev.clone() else { return v; };
      if c.neg && k.is_unsigned() { v.label("negated-unsigned-unjudged"); return v; }
      if matches!(lit, Lit::Based(..)) && !K::I64.fits(&r.to_integer()) { v.label("based-magnitude-exceeds-i64-unjudged"); if let Outcome::Ok(val) = &out { if val.kind() != k.name() { v.fail(format!("C13|wrong-kind|{}|{}", f, ty), format!("`{}` evaluated to {}", text, val.show())); } } return v; }
      let r = if c.neg { -r } else { r };
      // a float/scientific spelling denotes its nearest f64; the annotation then converts that value
      let r = if k.is_int() && matches!(lit, Lit::Float(..) | Lit::Sci(..)) { match host_f64(lit).and_then(|x| Ratio::<BigInt>::from_float(sgn(x))) { Some(x) => x, None => { v.label("non-finite-float-literal"); return v; } } } else { r };
      if k.is_int() {
        let is_int_spelling = r.is_integer();
        let want_exact = if is_int_spelling && k.fits(&r.to_integer()) { Some(k.int_sc(&r.to_integer())) } else { None };
        let clamp = { let t = r.trunc().to_integer(); if t > k.max_int() { k.max_int() } else if t < k.min_int() { k.min_int() } else { t } };
        match &out {
          Outcome::Ok(val) => {
            match want_exact {
              Some(w) => if *val != RVal::S(w.clone()) {
                let big = r.abs() > Ratio::from_integer(BigInt::from(1u64 << 53));
                let cause = if c.neg && -r.to_integer() > k.max_int() { "negated-typed-literal-saturates-first" } else if big && matches!(lit, Lit::Int(_)) { "typed-int-through-f64" } else { "wrong-value" };
                v.fail(format!("C13|{}|{}|{}", cause, f, ty), format!("`{}` fits {} exactly ({}) but evaluated to {}", text, k.name(), w.show(), val.show()));
              },
              None => {
                // does not fit / fractional: clamp, floor/ceil, or (for negated literals of unsigned kinds) 0
                let mut ok = vec![RVal::S(k.int_sc(&clamp))];
                let fl = r.floor().to_integer(); let ce = r.ceil().to_integer();
                for x in [fl, ce] { if k.fits(&x) { ok.push(RVal::S(k.int_sc(&x))); } }
                if val.kind() != k.name() { v.fail(format!("C13|wrong-kind|{}|{}", f, ty), format!("`{}` evaluated to {}", text, val.show())); }
                else if !ok.contains(val) {
                  let cause = if matches!(lit, Lit::Based(..)) { "based-annotated-wraps" } else if c.neg { "negated-typed-literal-saturates-first" } else { "unfit-literal-gave-unrelated-value" };
                  v.fail(format!("C13|{}|{}|{}", cause, f, ty), format!("`{}` does not fit {} and evaluated to {}, which is neither the clamped value {} nor an error", text, k.name(), val.show(), clamp));
                }
              }
            }
          }
          Outcome::NotCode | Outcome::ParseErr(_) | Outcome::Err(_) => {
            if want_exact.is_some() {
              // same root cause as the listed finding: the magnitude is converted to the kind before the sign is applied (here the conversion rejects instead of saturating)
              let cause = if c.neg && -r.to_integer() > k.max_int() { "negated-typed-literal-saturates-first" } else if f == "sci-int-mantissa" { "sci-int-mantissa-rejected" } else if f.ends_with('_') && matches!(lit, Lit::Based(..)) { "based-underscore-rejected" } else { "typed-literal-rejected" };
              v.fail(format!("C13|{}|{}|{}|{}", cause, f, ty, out.class()), format!("`{}` fits {} but gave {}", text, k.name(), out.show()));
            } else { reject_ok(&mut v, "unfit"); }
          }
          _ => {}
        }
      } else if k.is_float() {
        // nearest in that kind of the (signed) spelling; based literals go i64 → float
        let want64 = match lit { Lit::Based(..) => r.to_integer().to_f64(), _ => host_f64(lit).map(sgn) };
        let Some(w) = want64 else { return v; };
        let want = if *k == K::F32 { f32b(w as f32) } else { f64b(w) };
        // direct decimal→f32 rounding may differ from the double rounding through f64 by one ulp: accept both
        let alt = if *k == K::F32 { host_f32(lit).map(|x| f32b(if c.neg { -x } else { x })) } else { None };
        match &out {
          Outcome::Ok(val) => {
            let zero_ok = w == 0.0 && matches!(val, RVal::S(Sc::F64(_) | Sc::F32(_))) && val.elems()[0] == RVal::S(if *k == K::F32 { f32b(-(w as f32)) } else { f64b(-w) });
            if !zero_ok && *val != RVal::S(want.clone()) && alt.as_ref().map(|a| *val != RVal::S(a.clone())).unwrap_or(true) {
              let cause = if matches!(lit, Lit::Sci(..)) { "sci-not-correctly-rounded" } else { "wrong-value" };
              v.fail(format!("C13|{}|{}|{}", cause, f, ty), format!("`{}` evaluated to {} expected {}", text, val.show(), want.show()));
            }
          }
          Outcome::NotCode | Outcome::ParseErr(_) | Outcome::Err(_) => {
            let fits = match lit { Lit::Based(..) => K::I64.fits(&r.to_integer()), _ => true };
            if fits {
              let cause = if f == "sci-int-mantissa" { "sci-int-mantissa-rejected" } else if f.ends_with('_') && matches!(lit, Lit::Based(..)) { "based-underscore-rejected" } else { "typed-literal-rejected" };
              v.fail(format!("C13|{}|{}|{}|{}", cause, f, ty, out.class()), format!("`{}` gave {}", text, out.show()));
            } else { reject_ok(&mut v, "based-overflow"); }
          }
          _ => {}
        }
      } else { v.label("typed-rational-or-complex-unjudged"); }
    }
  }
  v
}

fn host_f32(l: &Lit) -> Option<f32> {
  match l {
    Lit::Int(d) => strip(d).parse::<f32>().ok(),
    Lit::Float(a, b) => format!("{}.{}", if a.is_empty() { "0" } else { a }, b).parse::<f32>().ok(),
    Lit::Sci(m, _, sign, x) => { let m = if m.starts_with('.') { format!("0{}", m) } else { m.clone() }; format!("{}e{}{}", m, if *sign == Some(true) { "-" } else { "" }, x).parse::<f32>().ok() }
    _ => None,
  }
}
