//! C14 Sets hold distinct elements of one kind and obey set algebra.

use crate::engine::*;
use crate::gen::*;
use crate::mech::*;
use crate::rval::*;
use proptest::prelude::*;
use serde::{Deserialize, Serialize};
use std::collections::BTreeSet;

pub struct C14;

/// element universes; an element is (id within the universe, spelling variant)
#[derive(Clone, Copy, Debug, PartialEq, Eq, Hash, PartialOrd, Ord, Serialize, Deserialize)]
pub enum U { F64, U8, I32, R64, Str, Bool, Tuple, Nested }
pub const UNIVERSES: [U; 8] = [U::F64, U::U8, U::I32, U::R64, U::Str, U::Bool, U::Tuple, U::Nested];

impl U {
  fn size(&self) -> u8 { match self { U::Bool => 2, U::Nested => 6, _ => 8 } }
  fn name(&self) -> &'static str { match self { U::F64 => "f64", U::U8 => "u8", U::I32 => "i32", U::R64 => "r64", U::Str => "string", U::Bool => "bool", U::Tuple => "tuple", U::Nested => "nested-set" } }
  /// spellings of element `id`; all denote the same value
  fn spellings(&self, id: u8) -> Vec<String> {
    let i = id as usize;
    match self {
      U::F64 => { let v = [1.0, 2.0, 3.0, 0.5, 2.5, 10.0, 0.0, 7.0][i]; let mut s = vec![crate::kinds::f64_plain(v).unwrap()]; if v.fract() == 0.0 { s.push(format!("{}", v as i64)); } if v == 1.0 { s.push("(0.5 + 0.5)".into()); } if v == 3.0 { s.push("(1.0 + 2.0)".into()); } if v == 0.0 { s.push("-0.0".into()); } s }
      U::U8 => vec![format!("{}<u8>", [0, 1, 2, 3, 5, 8, 200, 255][i])],
      U::I32 => vec![format!("{}<i32>", [0, 1, 2, 3, 5, 8, 1000, 70000][i])],
      U::R64 => { let (n, d) = [(1, 2), (1, 3), (2, 3), (3, 1), (5, 2), (1, 1), (7, 4), (0, 1)][i]; vec![format!("{}/{}", n, d), format!("{}/{}", n * 2, d * 2), format!("{}/{}", n * 3, d * 3)] }
      U::Str => vec![format!("\"{}\"", ["a", "b", "ab", "", "c", "A", "ba", "zz"][i])],
      U::Bool => vec![["true", "false"][i].to_string()],
      U::Tuple => { let (a, b) = [(1, 2), (2, 1), (1, 1), (2, 2), (3, 1), (1, 3), (0, 0), (3, 3)][i]; vec![format!("({},{})", a, b), format!("({}.0, {}.0)", a, b)] }
      U::Nested => { let (a, b) = [(1, 2), (1, 3), (2, 3), (1, 4), (2, 4), (3, 4)][i]; vec![format!("{{{},{}}}", a, b), format!("{{{},{}}}", b, a), format!("{{{},{},{}}}", b, a, b)] }
    }
  }
  /// canonical reference value
  fn value(&self, id: u8) -> RVal {
    let i = id as usize;
    match self {
      U::F64 => RVal::S(f64b([1.0, 2.0, 3.0, 0.5, 2.5, 10.0, 0.0, 7.0][i])),
      U::U8 => RVal::S(Sc::U(8, [0, 1, 2, 3, 5, 8, 200, 255][i])),
      U::I32 => RVal::S(Sc::I(32, [0, 1, 2, 3, 5, 8, 1000, 70000][i])),
      U::R64 => { let (n, d) = [(1, 2), (1, 3), (2, 3), (3, 1), (5, 2), (1, 1), (7, 4), (0, 1)][i]; RVal::S(Sc::R(n, d)) }
      U::Str => RVal::S(Sc::Str(["a", "b", "ab", "", "c", "A", "ba", "zz"][i].to_string())),
      U::Bool => RVal::S(Sc::Bool(i == 0)),
      U::Tuple => { let (a, b) = [(1, 2), (2, 1), (1, 1), (2, 2), (3, 1), (1, 3), (0, 0), (3, 3)][i]; RVal::Tuple(vec![RVal::S(f64b(a as f64)), RVal::S(f64b(b as f64))]) }
      U::Nested => { let (a, b) = [(1, 2), (1, 3), (2, 3), (1, 4), (2, 4), (3, 4)][i]; RVal::Set { kind: "f64".into(), elems: vec![RVal::S(f64b(a as f64)), RVal::S(f64b(b as f64))], declared: 2 } }
    }
  }
}

#[derive(Clone, Debug, PartialEq, Eq, Serialize, Deserialize)]
pub struct El { pub id: u8, pub sp: u8 }

#[derive(Clone, Copy, Debug, PartialEq, Eq, Hash, Serialize, Deserialize)]
pub enum Op { Union, Inter, Diff, SymDiff, Subset, PSubset, Superset, PSuperset, In, NotIn, Size, Insert, Remove, Literal }
const OPS: [Op; 14] = [Op::Union, Op::Inter, Op::Diff, Op::SymDiff, Op::Subset, Op::PSubset, Op::Superset, Op::PSuperset, Op::In, Op::NotIn, Op::Size, Op::Insert, Op::Remove, Op::Literal];

#[derive(Clone, Copy, Debug, PartialEq, Eq, Hash, Serialize, Deserialize)]
pub enum Route { Literal, Variable, FromMatrix, WordForm,
  /// mixed operand forms (each takes its own dispatch arm): literal-variable, variable-literal, and a parenthesised expression on the left / right
  LitVar, VarLit, ExprVar, VarExpr, WordLitVar }

#[derive(Clone, Debug, Serialize, Deserialize)]
pub enum Case {
  Algebra { u: U, a: Vec<El>, b: Vec<El>, e: El, op: Op, route: Route },
  /// different element kinds on the two sides
  Mixed { ua: U, a: Vec<El>, ub: U, b: Vec<El>, op: Op },
  /// comprehension shapes over f64 sets: 0 identity, 1 filter x>t, 2 map x*2, 3 product, 4 join (repeated variable), 5 let-binding, 6 tuple pattern sum, 7 two generators + filter x<y, 8-11 dependent generators (a later generator's source mentions a variable of an earlier one; 10 with a filter, 11 three levels deep)
  Compr { a: Vec<El>, b: Vec<El>, shape: u8, t: u8 },
}

fn els(u: U, max: usize) -> BoxedStrategy<Vec<El>> {
  proptest::collection::vec((0..u.size(), 0u8..3).prop_map(|(id, sp)| El { id, sp }), 0..=max).boxed()
}

impl Prop for C14 {
  type Case = Case;
  const ID: &'static str = "C14";
  fn budget(t: Tier) -> u32 { t.pick(10_000, 200_000) }
  fn strategy(_t: Tier, _k: &Known) -> BoxedStrategy<Case> {
    let alg = (pick(UNIVERSES.to_vec()), pick(OPS.to_vec()), pick(vec![Route::Literal, Route::Literal, Route::Variable, Route::FromMatrix, Route::WordForm, Route::LitVar, Route::VarLit, Route::ExprVar, Route::VarExpr, Route::WordLitVar]))
      .prop_flat_map(|(u, op, route)| (els(u, 7), els(u, 7), (0..u.size(), 0u8..3)).prop_map(move |(a, b, (id, sp))| Case::Algebra { u, a, b, e: El { id, sp }, op, route })).boxed();
    let mixed = (pick(UNIVERSES.to_vec()), pick(UNIVERSES.to_vec()), pick(vec![Op::Union, Op::Inter, Op::Diff, Op::SymDiff, Op::Insert]))
      .prop_filter("same", |(a, b, _)| a != b)
      .prop_flat_map(|(ua, ub, op)| (els(ua, 4), els(ub, 4)).prop_map(move |(a, b)| Case::Mixed { ua, a, ub, b, op })).boxed();
    let compr = (els(U::F64, 6), els(U::F64, 6), 0u8..12, 0u8..8).prop_map(|(a, b, shape, t)| Case::Compr { a, b, shape, t }).boxed();
    prop_oneof![8 => alg, 1 => mixed, 3 => compr].boxed()
  }
  fn rule() -> &'static str {
    "case = two sets of 0-7 written elements (random order, duplicates, alternative spellings of equal values such as 1 / 1.0 / 0.5+0.5, \
     1/2 / 2/4, {1,2} / {2,1}) over an 8-value universe of one element kind ∈ {f64,u8,i32,r64,string,bool,tuple,nested set}, an operator \
     ∈ {∪ ∩ ∖ Δ ⊆ ⊊ ⊇ ⊋ ∈ ∉ size insert remove literal}, a construction route (literal, variable, from matrix, word form); plus \
     mixed-kind operand pairs and twelve comprehension shapes (four with dependent generators). Oracle: mathematical sets of canonical values + invariants (distinct, one \
     kind, declared size) on every observed set. Non-trivial = operands overlap partially and are written in different orders, or the \
     element kind is not f64; distinct key = (op, kind, |A|, |B|, |A∩B|, route)."
  }
  fn assumptions() -> Vec<String> {
    vec!["NaN elements are not generated; nested sets all have two elements (the element kind of a set of sets includes the inner size)".into(),
         "`==` between sets is unsupported at this commit and is not used as an oracle".into()]
  }
  fn describe(c: &Case) -> String { render(c).join("; ") }
  fn check(c: &Case, _cx: &Cx) -> Verdict { check(c) }
}

fn lit_of(u: U, v: &[El]) -> String {
  format!("{{{}}}", v.iter().map(|e| { let s = u.spellings(e.id); s[e.sp as usize % s.len()].clone() }).collect::<Vec<_>>().join(", "))
}
fn elem_text(u: U, e: &El) -> String { let s = u.spellings(e.id); s[e.sp as usize % s.len()].clone() }

fn opsym(op: Op) -> &'static str { match op { Op::Union => "∪", Op::Inter => "∩", Op::Diff => "∖", Op::SymDiff => "Δ", Op::Subset => "⊆", Op::PSubset => "⊊", Op::Superset => "⊇", Op::PSuperset => "⊋", Op::In => "∈", Op::NotIn => "∉", _ => "?" } }
fn opword(op: Op) -> Option<&'static str> { match op { Op::Union => Some("set/union"), Op::Inter => Some("set/intersection"), Op::Diff => Some("set/difference"), Op::SymDiff => Some("set/symmetric-difference"), _ => None } }

fn render(c: &Case) -> Vec<String> {
  match c {
    Case::Algebra { u, a, b, e, op, route } => {
      let mut st = vec![];
      let (ta, tb) = match route {
        Route::Variable | Route::WordForm => { st.push(format!("a := {}", lit_of(*u, a))); st.push(format!("b := {}", lit_of(*u, b))); ("a".to_string(), "b".to_string()) }
        Route::FromMatrix if matches!(u, U::F64 | U::U8 | U::I32 | U::R64 | U::Str | U::Bool) && !a.is_empty() && !b.is_empty() => {
          let kind = match u { U::Str => "string", other => other.name() };
          st.push(format!("ma := [{}]", a.iter().map(|e| elem_text(*u, e)).collect::<Vec<_>>().join(" ")));
          st.push(format!("a<{{{}}}> := ma", kind));
          st.push(format!("mb := [{}]", b.iter().map(|e| elem_text(*u, e)).collect::<Vec<_>>().join(" ")));
          st.push(format!("b<{{{}}}> := mb", kind));
          ("a".to_string(), "b".to_string())
        }
        Route::LitVar | Route::WordLitVar => { st.push(format!("b := {}", lit_of(*u, b))); (lit_of(*u, a), "b".to_string()) }
        Route::VarLit => { st.push(format!("a := {}", lit_of(*u, a))); ("a".to_string(), lit_of(*u, b)) }
        // `(a ∪ a)` denotes the same set as a: an expression operand (not a variable, not a literal)
        Route::ExprVar => { st.push(format!("a := {}", lit_of(*u, a))); st.push(format!("b := {}", lit_of(*u, b))); ("(a ∪ a)".to_string(), "b".to_string()) }
        Route::VarExpr => { st.push(format!("a := {}", lit_of(*u, a))); st.push(format!("b := {}", lit_of(*u, b))); ("a".to_string(), "(b ∪ b)".to_string()) }
        _ => (lit_of(*u, a), lit_of(*u, b)),
      };
      let et = elem_text(*u, e);
      let expr = match op {
        Op::Union | Op::Inter | Op::Diff | Op::SymDiff => if matches!(route, Route::WordForm | Route::WordLitVar) { format!("{}({}, {})", opword(*op).unwrap(), ta, tb) } else { format!("{} {} {}", ta, opsym(*op), tb) },
        Op::Subset | Op::PSubset | Op::Superset | Op::PSuperset => format!("{} {} {}", ta, opsym(*op), tb),
        Op::In | Op::NotIn => format!("{} {} {}", et, opsym(*op), ta),
        Op::Size => format!("set/size({})", ta),
        Op::Insert => format!("set/insert({}, {})", ta, et),
        Op::Remove => format!("set/remove({}, {})", ta, et),
        Op::Literal => ta.clone(),
      };
      st.push(expr);
      st
    }
    Case::Mixed { ua, a, ub, b, op } => {
      let expr = match op { Op::Insert => format!("set/insert({}, {})", lit_of(*ua, a), if b.is_empty() { "1".to_string() } else { elem_text(*ub, &b[0]) }), _ => format!("{} {} {}", lit_of(*ua, a), opsym(*op), lit_of(*ub, b)) };
      vec![expr]
    }
    Case::Compr { a, b, shape, t } => {
      let mut st = vec![format!("a := {}", lit_of(U::F64, a)), format!("b := {}", lit_of(U::F64, b))];
      let tv = U::F64.spellings(*t)[0].clone();
      if *shape == 6 { st.push("p := {(x, y) | x <- a, y <- b}".to_string()); }
      st.push(match shape {
        0 => "{x | x <- a}".to_string(),
        1 => format!("{{x | x <- a, x > {}}}", tv),
        2 => "{x * 2 | x <- a}".to_string(),
        3 => "{(x, y) | x <- a, y <- b}".to_string(),
        4 => "{x | x <- a, x <- b}".to_string(),
        5 => "{y | x <- a, y := x + 1}".to_string(),
        6 => "{x + y | (x, y) <- p}".to_string(),
        7 => "{(x, y) | x <- a, y <- b, x < y}".to_string(),
        // dependent generators: the source of a later generator mentions a variable bound by an earlier one (evaluated once per binding)
        8 => "{x + y | x <- a, y <- {x, 10}}".to_string(),
        9 => "{y | x <- b, y <- {x, x + 1}}".to_string(),
        10 => "{(x, y) | x <- a, y <- {x * 2, x * 3}, y > 4}".to_string(),
        _ => "{y + z | x <- a, y <- {x, x + 1}, z <- {y, 100}}".to_string(),
      });
      st
    }
  }
}

/// recursively order set elements so that sets compare as mathematical sets
pub fn canon(r: &RVal) -> RVal {
  match r {
    RVal::Set { kind, elems, declared } => { let mut e: Vec<RVal> = elems.iter().map(canon).collect(); e.sort(); RVal::Set { kind: kind.clone(), elems: e, declared: *declared } }
    RVal::Tuple(t) => RVal::Tuple(t.iter().map(canon).collect()),
    RVal::S(Sc::F64(b)) if f64::from_bits(*b) == 0.0 => RVal::S(f64b(0.0)),
    other => other.clone(),
  }
}

/// invariants every observed set must satisfy; returns (signature-suffix, message) on failure
fn set_invariants(r: &RVal, path: &str) -> Option<(String, String)> {
  if let RVal::Set { kind, elems, declared } = r {
    let c: Vec<RVal> = elems.iter().map(canon).collect();
    for i in 0..c.len() { for j in i + 1..c.len() {
      let eq = c[i] == c[j] || zero_equal(&c[i], &c[j]);
      if eq { let fam = if zero_raw_differs(&elems[i], &elems[j]) { "signed-zero".to_string() } else { elem_family(&c[i]) }; return Some((format!("duplicate-elements|{}", fam), format!("{} holds two equal elements {} and {}", path, elems[i].show(), elems[j].show()))); }
    } }
    if *declared != elems.len() { return Some(("declared-size".into(), format!("{} declares {} elements but holds {}", path, declared, elems.len()))); }
    for e in elems {
      let ek = match e { RVal::Set { kind: k, declared: d, .. } => format!("{{{}}}:{}", k, d), RVal::Tuple(t) => format!("({})", t.iter().map(|x| x.kind()).collect::<Vec<_>>().join(",")), other => other.kind() };
      if &ek != kind { return Some((format!("element-kind|{}-in-{}", elem_family(e), kind.chars().take(10).collect::<String>()), format!("{} has element kind {} but holds {} of kind {}", path, kind, e.show(), ek))); }
      if let Some(x) = set_invariants(e, &format!("{} ∋ {}", path, e.show())) { return Some(x); }
    }
  }
  None
}
fn zero_raw_differs(a: &RVal, b: &RVal) -> bool { match (a, b) { (RVal::S(Sc::F64(x)), RVal::S(Sc::F64(y))) => x != y && f64::from_bits(*x) == 0.0 && f64::from_bits(*y) == 0.0, _ => false } }
fn zero_equal(a: &RVal, b: &RVal) -> bool { match (a, b) { (RVal::S(Sc::F64(x)), RVal::S(Sc::F64(y))) => f64::from_bits(*x) == f64::from_bits(*y), _ => false } }
fn elem_family(r: &RVal) -> String { match r { RVal::S(s) => s.kind(), RVal::Tuple(_) => "tuple".into(), RVal::Set { .. } => "set".into(), other => other.kind() } }

fn model(u: U, v: &[El]) -> BTreeSet<u8> { let _ = u; v.iter().map(|e| e.id).collect() }
fn to_vals(u: U, ids: &BTreeSet<u8>) -> Vec<RVal> { let mut v: Vec<RVal> = ids.iter().map(|i| canon(&u.value(*i))).collect(); v.sort(); v }

fn check(c: &Case) -> Verdict {
  let mut v = Verdict::new();
  let st = render(c);
  let mut sess = Session::new();
  let n = st.len();
  for (i, s) in st.iter().enumerate() {
    let out = sess.run(s);
    if i + 1 < n {
      match &out {
        Outcome::Ok(r) => { if let Some((sig, msg)) = set_invariants(r, &format!("`{}`", s)) { v.fail(format!("C14|{}{}|operand", if uses_negative_zero(c) { "signed-zero|" } else { "" }, sig), msg); label_case(c, &mut v); return v; } }
        Outcome::NotCode => { v.harness(format!("`{}` parsed as prose", s)); return v; }
        other => {
          // an operand set that cannot even be built: only allowed to fail for mixed-kind literals (never generated here)
          v.fail(format!("C14|operand-rejected|{}", case_kind(c)), format!("`{}` gave {}", s, other.show())); label_case(c, &mut v); return v;
        }
      }
    } else {
      let mut r = judge(c, s, out, v);
      if uses_negative_zero(c) { if let Status::Fail { sig, msg } = &r.status { if !sig.starts_with("C14|signed-zero|") { r.status = Status::Fail { sig: sig.replacen("C14|", "C14|signed-zero|", 1), msg: msg.clone() }; } } }
      return r;
    }
  }
  v
}

fn case_kind(c: &Case) -> String { match c { Case::Algebra { u, route, .. } => format!("{}|{:?}", u.name(), route), Case::Mixed { ua, ub, .. } => format!("mixed-{}-{}", ua.name(), ub.name()), Case::Compr { shape, .. } => format!("compr{}", shape) } }
fn label_case(c: &Case, v: &mut Verdict) { v.label(format!("case:{}", case_kind(c))); }

fn judge(c: &Case, text: &str, out: Outcome, mut v: Verdict) -> Verdict {
  label_case(c, &mut v);
  if let Outcome::NotCode = out { v.harness(format!("`{}` parsed as prose", text)); return v; }
  if let Outcome::Panic(m) = &out { v.fail("C14|panic-escaped", m.clone()); return v; }
  // invariants on whatever set came back
  if let Outcome::Ok(r) = &out { if let Some((sig, msg)) = set_invariants(r, &format!("`{}`", text)) {
    if let Case::Mixed { op, ua, ub, .. } = c { v.fail(format!("C14|mixed-kind-operands-accepted|{:?}|{}-{}", op, ua.name(), ub.name()), msg); } else { v.fail(format!("C14|{}|result|{}", sig, case_op(c)), msg); }
    return v;
  } }
  match c {
    Case::Algebra { u, a, b, e, op, route } => {
      let (ma, mb) = (model(*u, a), model(*u, b));
      let inter = ma.intersection(&mb).count();
      v.label(format!("op:{:?}", op));
      v.label(format!("kind:{}", u.name()));
      v.label(format!("route:{:?}", route));
      let partial = inter > 0 && inter < ma.len().max(mb.len());
      if partial || *u != U::F64 { v.key = Some(format!("{:?}|{}|{}|{}|{}|{:?}", op, u.name(), ma.len(), mb.len(), inter, route)); }
      let want_set: Option<BTreeSet<u8>> = match op {
        Op::Union => Some(ma.union(&mb).cloned().collect()), Op::Inter => Some(ma.intersection(&mb).cloned().collect()),
        Op::Diff => Some(ma.difference(&mb).cloned().collect()), Op::SymDiff => Some(ma.symmetric_difference(&mb).cloned().collect()),
        Op::Insert => { let mut s = ma.clone(); s.insert(e.id); Some(s) } Op::Remove => { let mut s = ma.clone(); s.remove(&e.id); Some(s) }
        Op::Literal => Some(ma.clone()), _ => None,
      };
      let want_bool: Option<bool> = match op {
        Op::Subset => Some(ma.is_subset(&mb)), Op::PSubset => Some(ma.is_subset(&mb) && ma != mb), Op::Superset => Some(ma.is_superset(&mb)), Op::PSuperset => Some(ma.is_superset(&mb) && ma != mb),
        Op::In => Some(ma.contains(&e.id)), Op::NotIn => Some(!ma.contains(&e.id)), _ => None,
      };
      let empty_involved = ma.is_empty() || mb.is_empty();
      match &out {
        Outcome::Ok(r) => {
          if let Some(ws) = want_set {
            match r {
              RVal::Set { elems, kind, .. } => {
                let mut got: Vec<RVal> = elems.iter().map(canon).collect(); got.sort();
                let want = to_vals(*u, &ws);
                if got != want { v.fail(format!("C14|wrong-result|{:?}|{}", op, u.name()), format!("`{}` gave {} expected {{{}}}", text, r.show(), want.iter().map(|x| x.show()).collect::<Vec<_>>().join(", "))); return v; }
                // a non-empty result must carry the element kind of its elements (checked by invariants); an empty one may be `_`
                let _ = kind;
              }
              other => { v.fail(format!("C14|not-a-set|{:?}", op), format!("`{}` gave {}", text, other.show())); }
            }
          } else if let Some(wb) = want_bool {
            if *r != RVal::S(Sc::Bool(wb)) { v.fail(format!("C14|wrong-relation|{:?}|{}{}", op, u.name(), if empty_involved { "|empty-operand" } else { "" }), format!("`{}` gave {} expected {}", text, r.show(), wb)); }
          } else if *op == Op::Size {
            let ok = match r { RVal::S(s) => s.as_f64() == Some(ma.len() as f64), _ => false };
            if !ok { v.fail(format!("C14|wrong-size|{}", u.name()), format!("`{}` gave {} expected {}", text, r.show(), ma.len())); }
          }
        }
        other => {
          v.fail(format!("C14|operation-rejected|{:?}|{}{}", op, u.name(), if empty_involved { "|empty-operand" } else { "" }), format!("`{}` gave {}", text, other.show()));
        }
      }
    }
    Case::Mixed { ua, ub, op, .. } => {
      v.label(format!("mixed:{:?}", op));
      v.key = Some(format!("mixed|{:?}|{}|{}|{}", op, ua.name(), ub.name(), out.class()));
      // rejection is fine; a value is fine only if it satisfies the invariants (checked above)
    }
    Case::Compr { a, b, shape, t } => {
      v.label(format!("compr:{}", shape));
      let fa: Vec<f64> = model(U::F64, a).iter().map(|i| val_f(*i)).collect();
      let fb: Vec<f64> = model(U::F64, b).iter().map(|i| val_f(*i)).collect();
      let tv = val_f(*t);
      let sc = |x: f64| canon(&RVal::S(f64b(x)));
      let tp = |x: f64, y: f64| RVal::Tuple(vec![RVal::S(f64b(x)), RVal::S(f64b(y))]);
      let mut want: Vec<RVal> = match shape {
        0 => fa.iter().map(|x| sc(*x)).collect(),
        1 => fa.iter().filter(|x| **x > tv).map(|x| sc(*x)).collect(),
        2 => fa.iter().map(|x| sc(*x * 2.0)).collect(),
        3 => fa.iter().flat_map(|x| fb.iter().map(move |y| tp(*x, *y))).collect(),
        4 => fa.iter().filter(|x| fb.contains(x)).map(|x| sc(*x)).collect(),
        5 => fa.iter().map(|x| sc(*x + 1.0)).collect(),
        6 => fa.iter().flat_map(|x| fb.iter().map(move |y| sc(*x + *y))).collect(),
        7 => fa.iter().flat_map(|x| fb.iter().filter(move |y| *x < **y).map(move |y| tp(*x, *y))).collect(),
        8 => fa.iter().flat_map(|x| [*x, 10.0].into_iter().map(move |y| sc(*x + y))).collect(),
        9 => fb.iter().flat_map(|x| [*x, *x + 1.0].into_iter().map(|y| sc(y))).collect(),
        10 => fa.iter().flat_map(|x| [*x * 2.0, *x * 3.0].into_iter().filter(|y| *y > 4.0).map(move |y| tp(*x, y))).collect(),
        _ => fa.iter().flat_map(|x| [*x, *x + 1.0].into_iter().flat_map(|y| [y, 100.0].into_iter().map(move |z| sc(y + z)))).collect(),
      };
      want.sort(); want.dedup();
      v.key = Some(format!("compr|{}|{}|{}|{}", shape, fa.len(), fb.len(), want.len()));
      match &out {
        Outcome::Ok(RVal::Set { elems, .. }) => {
          let mut got: Vec<RVal> = elems.iter().map(canon).collect(); got.sort();
          if got != want { v.fail(format!("C14|comprehension-wrong|shape{}", shape), format!("`{}` with a = {:?}, b = {:?} gave {{{}}} expected {{{}}}", text, fa, fb, got.iter().map(|x| x.show()).collect::<Vec<_>>().join(", "), want.iter().map(|x| x.show()).collect::<Vec<_>>().join(", "))); }
        }
        Outcome::Ok(other) => v.fail(format!("C14|comprehension-not-a-set|shape{}", shape), format!("`{}` gave {}", text, other.show())),
        other => {
          let empty = (fa.is_empty() && *shape != 9) || ((*shape == 3 || *shape == 4 || *shape == 6 || *shape == 7 || *shape == 9) && fb.is_empty());
          v.fail(format!("C14|comprehension-rejected|shape{}{}", shape, if empty { "|empty-generator" } else { "" }), format!("`{}` with a = {:?}, b = {:?} gave {}", text, fa, fb, other.show()));
        }
      }
    }
  }
  v
}

fn case_op(c: &Case) -> String { match c { Case::Algebra { op, u, .. } => format!("{:?}|{}", op, u.name()), Case::Mixed { op, ua, ub, .. } => format!("mixed-{:?}|{}-{}", op, ua.name(), ub.name()), Case::Compr { shape, .. } => format!("compr{}", shape) } }
fn val_f(id: u8) -> f64 { [1.0, 2.0, 3.0, 0.5, 2.5, 10.0, 0.0, 7.0][id as usize] }

/// the case writes the f64 zero as `-0.0` somewhere
fn uses_negative_zero(c: &Case) -> bool {
  let nz = |v: &[El]| v.iter().any(|e| e.id == 6 && U::F64.spellings(6)[e.sp as usize % U::F64.spellings(6).len()] == "-0.0");
  match c {
    Case::Algebra { u: U::F64, a, b, e, .. } => nz(a) || nz(b) || nz(std::slice::from_ref(e)),
    Case::Mixed { ua, a, ub, b, .. } => (*ua == U::F64 && nz(a)) || (*ub == U::F64 && nz(b)),
    Case::Compr { a, b, .. } => nz(a) || nz(b),
    _ => false,
  }
}
