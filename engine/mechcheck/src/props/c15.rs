//! C15 Ranges are the arithmetic progressions they denote.

use crate::engine::*;
use crate::gen::*;
use crate::kinds::*;
use crate::mech::*;
use crate::rval::*;
use num_bigint::BigInt;
use num_traits::{Signed, ToPrimitive, Zero};
use proptest::prelude::*;
use serde::{Deserialize, Serialize};

pub struct C15;

#[derive(Clone, Debug, Serialize, Deserialize)]
pub struct Case {
  pub a: Sc,
  pub s: Option<Sc>,
  pub b: Sc,
  pub inclusive: bool,
  /// use the range as an index into a vector of this length (f64 index ranges only)
  pub index_len: Option<usize>,
  /// operands inline as typed literals (only when they are exactly writable) instead of variables
  pub inline: bool,
  /// which operands are variables (bit 0 start, bit 1 step, bit 2 end); 255 = all follow `inline`. Mixed literal/variable operands take
  /// different arms of the range dispatch tables than all-literal or all-variable ones
  #[serde(default = "all_follow")]
  pub vars: u8,
  /// where the range is written: 0 = a top-level statement; 1 = the body of a match arm whose pattern binds the variable operands;
  /// 2 = the same with globals of the pattern variables' names holding other values (the arm's bindings must win); 3 = the body of a
  /// user-defined function whose parameters are the variable operands
  #[serde(default)]
  pub ctx: u8,
}
fn all_follow() -> u8 { 255 }

const MAXLEN: usize = 2000;

fn range_kinds() -> Vec<K> { REAL_KINDS.to_vec() }

fn int_case(k: K) -> BoxedStrategy<(Sc, Option<Sc>, Sc)> {
  // start anywhere; length and step small so that the range stays short; also near-max starts
  let start = sc_strategy(k, Pool::Mixed);
  (start, 0u32..40, prop_oneof![3 => Just(None), 4 => (1i64..=9).prop_map(Some), 1 => Just(Some(0i64)), 1 => (-4i64..0).prop_map(Some)], -3i32..=3, any::<bool>())
    .prop_map(move |(a, n, step, off, from_top)| {
      let av = sc_int(&a).unwrap();
      let st = BigInt::from(step.unwrap_or(1));
      // b = a + n*step + off, clamped into the kind; or anchored to the top of the kind
      let (av, bv) = if from_top {
        let top = k.max_int();
        let lo = &top - BigInt::from(n) * st.abs() - BigInt::from(off.abs());
        let lo = if lo < k.min_int() { k.min_int() } else { lo };
        (lo, top - BigInt::from(off.abs() % 2))
      } else {
        let mut bv = &av + BigInt::from(n) * &st + BigInt::from(off);
        if bv > k.max_int() { bv = k.max_int(); }
        if bv < k.min_int() { bv = k.min_int(); }
        (av, bv)
      };
      let s = step.and_then(|s| { let sv = BigInt::from(s); if k.fits(&sv) { Some(k.int_sc(&sv)) } else { None } });
      (k.int_sc(&av), s, k.int_sc(&bv))
    }).boxed()
}

fn float_case(k: K) -> BoxedStrategy<(Sc, Option<Sc>, Sc)> {
  // dyadic and non-dyadic steps; a from small/mid pool; b = a + n*s + fraction
  let steps = prop_oneof![
    3 => Just(None),
    3 => prop_oneof![Just(0.5f64), Just(0.25), Just(2.0), Just(1.5), Just(3.0), Just(0.125)].prop_map(Some),
    2 => prop_oneof![Just(0.1f64), Just(0.3), Just(0.7), Just(1.1)].prop_map(Some),
    1 => Just(Some(0.0f64)),
    1 => prop_oneof![Just(-1.0f64), Just(-0.5)].prop_map(Some),
  ];
  ((-200i32..200), 0u32..4, 0u32..30, steps, 0u32..5).prop_map(move |(a4, ash, n, step, frac)| {
    let a = a4 as f64 / (1u32 << ash) as f64;
    let s = step.unwrap_or(1.0);
    let f = [0.0, 0.25, 0.5, 0.75, -0.25][frac as usize] * s.abs().max(0.25);
    let b = a + n as f64 * s + f;
    let mk = |x: f64| if k == K::F32 { f32b(x as f32) } else { f64b(x) };
    (mk(a), step.map(mk), mk(b))
  }).boxed()
}

fn rat_case() -> BoxedStrategy<(Sc, Option<Sc>, Sc)> {
  (sc_strategy(K::R64, Pool::Small), proptest::option::of(sc_strategy(K::R64, Pool::Small)), sc_strategy(K::R64, Pool::Small)).boxed()
}

/// exact value as a rational (i128 numerator/denominator is plenty for our pools) — floats are dyadic rationals
fn exact(s: &Sc) -> Option<num_rational::Ratio<BigInt>> {
  use num_rational::Ratio;
  match s {
    Sc::U(_, v) => Some(Ratio::from_integer(BigInt::from(*v))),
    Sc::I(_, v) => Some(Ratio::from_integer(BigInt::from(*v))),
    Sc::F64(b) => Ratio::from_float(f64::from_bits(*b)),
    Sc::F32(b) => Ratio::from_float(f32::from_bits(*b)),
    Sc::R(n, d) => Some(Ratio::new(BigInt::from(*n), BigInt::from(*d))),
    _ => None,
  }
}

fn is_dyadic_exact(a: &Sc, s: &Option<Sc>, n: usize) -> bool {
  // the accumulated sums a + k*s are exactly representable when everything is a small dyadic
  let chk = |x: &Sc| match x {
    Sc::F64(b) => { let v = f64::from_bits(*b); v.is_finite() && (v * 1024.0).fract() == 0.0 && v.abs() < 1e6 }
    Sc::F32(b) => { let v = f32::from_bits(*b); v.is_finite() && (v * 1024.0).fract() == 0.0 && v.abs() < 1e4 }
    _ => true,
  };
  chk(a) && s.as_ref().map(|s| chk(s)).unwrap_or(true) && n < 4000
}

impl Prop for C15 {
  type Case = Case;
  const ID: &'static str = "C15";
  fn budget(t: Tier) -> u32 { t.pick(40_000, 400_000) }
  fn strategy(_t: Tier, _k: &Known) -> BoxedStrategy<Case> {
    let kinds = range_kinds();
    (pick(kinds), any::<bool>(), any::<bool>(), proptest::option::weighted(0.15, 3usize..9), prop_oneof![1 => Just(255u8), 1 => 0u8..8], prop_oneof![5 => Just(0u8), 1 => Just(1u8), 1 => Just(2u8), 1 => Just(3u8)])
      .prop_flat_map(|(k, inclusive, inline, index_len, vars, ctx)| {
        let core = if k.is_int() { int_case(k) } else if k == K::R64 { rat_case() } else { float_case(k) };
        core.prop_map(move |(a, s, b)| Case { a, s, b, inclusive, index_len: if k == K::F64 { index_len } else { None }, inline, vars, ctx: if k == K::R64 { 0 } else { ctx } })
      }).boxed()
  }
  fn rule() -> &'static str {
    "case = (kind, start, optional step, end, inclusive?, optional use as index); generated per kind with ends on/off the step grid, \
     near the kind maximum, zero/negative steps, empty and single-element ranges. Non-trivial = step present, or kind != f64, or an \
     operand is a kind boundary; distinct key = (kind, form, count class, divisibility, near-max, outcome)."
  }
  fn assumptions() -> Vec<String> {
    vec![
      "ranges longer than 2000 elements are not generated".into(),
      "a negative-step (descending) range that is rejected with an error is labelled unsupported, not judged; if it yields a value the value must be the progression".into(),
      "non-dyadic float steps: element tolerance n·2 ulp of the largest magnitude, last element optional when the end is within that tolerance of a grid point".into(),
    ]
  }
  fn describe(c: &Case) -> String {
    let s = render(c);
    s.join("; ")
  }
  fn check(c: &Case, _cx: &Cx) -> Verdict { check(c) }
}

fn writable_inline(s: &Sc) -> bool {
  match s {
    Sc::U(_, v) => *v <= (1u128 << 53),
    Sc::I(_, v) => *v >= 0 && *v <= (1i128 << 53),
    Sc::F64(b) => { let x = f64::from_bits(*b); x.is_finite() && !x.is_sign_negative() }
    Sc::F32(b) => { let x = f32::from_bits(*b); x.is_finite() && !x.is_sign_negative() }
    Sc::R(n, _) => *n >= 0,
    _ => false,
  }
}

fn one_of(k: K) -> Sc { if k.is_int() { k.int_sc(&BigInt::from(1)) } else if k == K::F32 { f32b(1.0) } else { f64b(1.0) } }

/// the context actually used: local contexts need at least one variable operand, a kind with ranges, and no index use
fn eff_ctx(c: &Case) -> u8 {
  if c.ctx == 0 || c.index_len.is_some() { return 0; }
  let inline = c.inline && writable_inline(&c.a) && writable_inline(&c.b) && c.s.as_ref().map(writable_inline).unwrap_or(true);
  let as_var = |bit: u8, x: &Sc| if c.vars == 255 { !inline } else { c.vars & (1 << bit) != 0 || !writable_inline(x) };
  if as_var(0, &c.a) || c.s.as_ref().map(|x| as_var(1, x)).unwrap_or(false) || as_var(2, &c.b) { c.ctx.min(3) } else { 0 }
}

fn render(c: &Case) -> Vec<String> {
  let inline = c.inline && writable_inline(&c.a) && writable_inline(&c.b) && c.s.as_ref().map(writable_inline).unwrap_or(true);
  let mut st = vec![];
  // per-operand placement: a variable when its bit is set (or when it cannot be written exactly as a literal)
  let as_var = |bit: u8, x: &Sc| if c.vars == 255 { !inline } else { c.vars & (1 << bit) != 0 || !writable_inline(x) };
  let (va, vs, vb) = (as_var(0, &c.a), c.s.as_ref().map(|x| as_var(1, x)).unwrap_or(false), as_var(2, &c.b));
  if va { st.extend(define_scalar("a", &c.a, false)); }
  if let (Some(s), true) = (&c.s, vs) { st.extend(define_scalar("s", s, false)); }
  if vb { st.extend(define_scalar("b", &c.b, false)); }
  let ctx = eff_ctx(c);
  // in a local context the variable operands are read through names the arm / function binds (pa, ps, pb)
  let nm = |g: &str| if ctx == 0 { g.to_string() } else { format!("p{}", g) };
  let (a, s, b) = (if va { nm("a") } else { lit(&c.a) }, c.s.as_ref().map(|x| if vs { nm("s") } else { lit(x) }), if vb { nm("b") } else { lit(&c.b) });
  let dots = if c.inclusive { "..=" } else { ".." };
  let expr = match s { Some(s) => format!("{}..{}{}{}", a, s, dots, b), None => format!("{}{}{}", a, dots, b) };
  if ctx != 0 {
    let k = sc_kind(&c.a).unwrap();
    let globals: Vec<&str> = [("a", va), ("s", vs), ("b", vb)].iter().filter(|(_, v)| *v).map(|(g, _)| *g).collect();
    let locals: Vec<String> = globals.iter().map(|g| format!("p{}", g)).collect();
    let one = lit(&one_of(k));
    if ctx == 3 {
      let params = locals.iter().map(|l| format!("{}<{}>", l, k.name())).collect::<Vec<_>>().join(", ");
      let pat = if locals.len() == 1 { locals[0].clone() } else { format!("({})", locals.join(", ")) };
      st.push(format!("rf({}) => <[{}]>\n  └ {} => {}.\n", params, k.name(), pat, expr));
      st.push(format!("rf({})", globals.join(", ")));
    } else {
      if ctx == 2 {
        // decoys: globals with the pattern variables' names and other values (each takes the value of the next operand in a cycle)
        for (i, l) in locals.iter().enumerate() { st.push(format!("{} := {}", l, if locals.len() == 1 { one.clone() } else { globals[(i + 1) % globals.len()].to_string() })); }
      }
      let (subject, pat) = if globals.len() == 1 { (globals[0].to_string(), locals[0].clone()) } else { st.push(format!("t := ({})", globals.join(", "))); ("t".to_string(), format!("({})", locals.join(", "))) };
      st.push(format!("{}? | {} => {} | * => {}..={}.", subject, pat, expr, one, one));
    }
    return st;
  }
  if let Some(n) = c.index_len {
    let elems: Vec<String> = (0..n).map(|i| format!("{}", (i + 1) * 11)).collect();
    st.push(format!("x := [{}]", elems.join(" ")));
    st.push(format!("x[{}]", expr));
  } else {
    st.push(expr);
  }
  st
}

fn check(c: &Case) -> Verdict {
  use num_rational::Ratio;
  let mut v = Verdict::new();
  let k = sc_kind(&c.a).unwrap();
  let stmts = render(c);
  let mut sess = Session::new();
  let n = stmts.len();
  for st in &stmts[..n - 1] {
    match sess.run(st) {
      Outcome::Ok(_) => {}
      Outcome::NotCode => { v.harness(format!("setup `{}` parsed as prose", st)); return v; }
      other => { v.harness(format!("setup `{}` gave {}", st, other.show())); return v; }
    }
  }
  // verify operands when bound to variables
  let snap = sess.snapshot();
  for (nm, val) in [("a", Some(&c.a)), ("s", c.s.as_ref()), ("b", Some(&c.b))] {
    if let (Some(val), Some(got)) = (val, snap.get(nm)) {
      if *got != RVal::S(val.clone()) { v.harness(format!("operand {} reads back {} instead of {}", nm, got.show(), val.show())); return v; }
    }
  }
  let out = sess.run(&stmts[n - 1]);
  if let Outcome::NotCode = out { v.harness(format!("`{}` parsed as prose", stmts[n - 1])); return v; }
  if let Outcome::Panic(m) = &out { v.fail(format!("C15|panic-escaped|{}", k.name()), format!("panic escaped interpret: {}", m)); return v; }

  // ---- reference model
  let (ea, eb) = (exact(&c.a), exact(&c.b));
  let es = match &c.s { Some(s) => exact(s), None => Some(Ratio::from_integer(BigInt::from(1))) };
  let form = format!("{}{}", if c.s.is_some() { "step" } else { "unit" }, if c.inclusive { "-incl" } else { "-excl" });
  v.label(format!("kind:{}", k.name()));
  v.label(format!("form:{}", form));
  if c.index_len.is_some() { v.label("as-index"); }
  let ctx = eff_ctx(c);
  v.label(format!("context:{}", ["top-level", "match-arm", "match-arm-shadowing-globals", "function-body"][ctx as usize]));
  let (Some(ea), Some(eb), Some(es)) = (ea, eb, es) else {
    // NaN / infinity operand: nothing is demanded except no wrong *finite* progression; label only
    v.label("non-finite-operand");
    v.discard("non-finite operand");
    return v;
  };
  let zero = Ratio::from_integer(BigInt::zero());
  // expected terms
  let mut terms: Vec<Ratio<BigInt>> = vec![];
  let buildable = if es == zero { false } else if es > zero { if c.inclusive { ea <= eb } else { ea < eb } } else { if c.inclusive { ea >= eb } else { ea > eb } };
  if buildable {
    let mut t = ea.clone();
    loop {
      let inside = if es > zero { if c.inclusive { t <= eb } else { t < eb } } else { if c.inclusive { t >= eb } else { t > eb } };
      if !inside { break; }
      terms.push(t.clone());
      if terms.len() > MAXLEN + 1 { v.discard("too long"); return v; }
      t = t + &es;
    }
  }
  let descending = es < zero;
  let count_class = match terms.len() { 0 => "0", 1 => "1", 2..=4 => "2-4", _ => "5+" };
  let on_grid = if es != zero { ((&eb - &ea) / &es).is_integer() } else { false };
  let near_max = k.is_int() && (k.max_int() - sc_int(&c.b).unwrap()) < BigInt::from(3);
  v.label(format!("count:{}", count_class));
  if near_max { v.label("near-max"); }
  if descending { v.label("descending"); }
  let boundary = k.is_int() && (near_max || sc_int(&c.a).unwrap() == k.min_int());
  if c.s.is_some() || k != K::F64 || boundary {
    v.key = Some(format!("{}|{}|{}|{}|{}|{}|{}", k.name(), form, count_class, on_grid, near_max, c.index_len.is_some(), out.class()));
  }

  // observed element sequence
  let observed: Option<Vec<RVal>> = match &out {
    Outcome::Ok(RVal::Mat { kind, data, rows, cols }) => {
      if c.index_len.is_none() {
        if kind != k.name() { v.fail(format!("C15|kind|{}|{}", k.name(), form), format!("range of {} operands has element kind {}", k.name(), kind)); return v; }
        if *rows != 1 && *cols != 1 { v.fail(format!("C15|shape|{}|{}", k.name(), form), format!("range result is {}x{}", rows, cols)); return v; }
      }
      Some(data.clone())
    }
    Outcome::Ok(RVal::S(s)) if c.index_len.is_some() => Some(vec![RVal::S(s.clone())]),
    Outcome::Ok(other) => { v.fail(format!("C15|not-a-vector|{}|{}", k.name(), form), format!("range evaluated to {}", other.show())); return v; }
    _ => None,
  };

  if let Some(n) = c.index_len {
    // as index: expected selection of x = [11 22 ...] at the integer terms; any term outside 1..=n ⇒ error
    let idx: Vec<Option<usize>> = terms.iter().map(|t| if t.is_integer() { t.to_integer().to_usize() } else { None }).collect();
    let all_int = idx.iter().all(|i| i.is_some());
    if !all_int { v.discard("fractional index"); return v; }
    let idx: Vec<usize> = idx.into_iter().map(|i| i.unwrap()).collect();
    let in_range = idx.iter().all(|i| *i >= 1 && *i <= n);
    if descending && out.is_rejected() { v.label("unsupported-descending"); return v; }
    if terms.is_empty() {
      match observed { None => {} Some(o) if o.is_empty() => {} Some(o) => v.fail(format!("C15|index-unbuildable-gave-value|{}", form), format!("`{}` selected {} elements through an unbuildable range", stmts[n_last(&stmts)], o.len())) }
      return v;
    }
    if !in_range {
      if observed.is_some() { let cause = root_cause(c, k, &terms, &es, &out); v.fail(if cause == "other" { format!("C15|index-out-of-range-gave-value|{}", form) } else { format!("C15|{}|index|{}", cause, form) }, format!("range index leaves 1..={} but evaluated to {}", n, out.show())); }
      return v;
    }
    let want: Vec<RVal> = idx.iter().map(|i| RVal::S(f64b((i * 11) as f64))).collect();
    // a one-term range is a 1x1 index matrix; indexing rejects those (the listed C03 / C04 / C18 finding single-element-index-rejected).
    // The range itself is right — the rejection is the indexing's, which is C03's subject, not C15's
    if terms.len() == 1 && matches!(&out, Outcome::Err(e) if e.starts_with("UnhandledFunctionArgumentIxes")) { v.label("index:one-term-range-rejected-by-indexing"); return v; }
    // a range used as an index fails for the same reasons as the range alone: key it by the same root cause
    let cause = root_cause(c, k, &terms, &es, &out);
    match observed {
      None => v.fail(if cause == "other" { format!("C15|index-rejected|{}|{}", form, out.class()) } else { format!("C15|{}|index|{}", cause, form) }, format!("in-range index range rejected: {}", out.show())),
      Some(o) => if o != want { v.fail(if cause == "other" { format!("C15|index-wrong|{}", form) } else { format!("C15|{}|index|{}", cause, form) }, format!("x[{:?}] gave {} expected {:?}", idx, out.show(), want.iter().map(|x| x.show()).collect::<Vec<_>>())); }
    }
    return v;
  }

  if terms.is_empty() {
    // unbuildable: error or empty vector
    match observed {
      None => {}
      Some(o) if o.is_empty() => {}
      Some(o) => {
        let cause = root_cause(c, k, &terms, &es, &out);
        v.fail(format!("C15|{}|unbuildable-gave-value|{}|{}", cause, k.name(), form), format!("unbuildable range evaluated to {} element(s): {}", o.len(), out.show()))
      }
    }
    v.label("unbuildable");
    return v;
  }
  if descending && out.is_rejected() { v.label("unsupported-descending"); return v; }

  // terms must be representable in the kind (true by construction for ints: they lie between a and b)
  let exact_mode = k.is_int() || k == K::R64 || is_dyadic_exact(&c.a, &c.s, terms.len());
  match observed {
    None => {
      let cause = root_cause(c, k, &terms, &es, &out);
      v.fail(format!("C15|{}|rejected|{}|{}|{}", cause, k.name(), form, out.class()),
        format!("buildable range ({} terms, first {}, last {}) was rejected: {}", terms.len(), terms[0], terms[terms.len() - 1], out.show()));
    }
    Some(o) => {
      let conv = |r: &Ratio<BigInt>| -> RVal {
        match k {
          K::R64 => RVal::S(Sc::R(r.numer().to_i64().unwrap_or(0), r.denom().to_i64().unwrap_or(1))),
          K::F64 => RVal::S(f64b(ratio_to_f64(r))),
          K::F32 => RVal::S(f32b(ratio_to_f64(r) as f32)),
          _ => RVal::S(k.int_sc(&r.to_integer())),
        }
      };
      if exact_mode {
        let want: Vec<RVal> = terms.iter().map(conv).collect();
        if o != want {
          let what = if o.len() != want.len() { "length" } else { "elements" };
          let cause = root_cause(c, k, &terms, &es, &out);
          v.fail(format!("C15|{}|wrong-{}|{}|{}", cause, what, k.name(), form),
            format!("expected {} terms [{} … {}], got {} : {}", want.len(), want[0].show(), want[want.len() - 1].show(), o.len(), out.show()));
        }
      } else {
        // tolerant float comparison
        let n = terms.len();
        let mag = ratio_to_f64(&ea).abs().max(ratio_to_f64(&eb).abs()).max(1e-300);
        let eps = if k == K::F32 { f32::EPSILON as f64 } else { f64::EPSILON };
        let tol = (n as f64 + 2.0) * 2.0 * eps * mag;
        let last_gap = (ratio_to_f64(&terms[n - 1]) - ratio_to_f64(&eb)).abs();
        let next_gap = (ratio_to_f64(&(terms[n - 1].clone() + &es)) - ratio_to_f64(&eb)).abs();
        let len_ok = o.len() == n || (o.len() + 1 == n && last_gap <= tol) || (o.len() == n + 1 && next_gap <= tol);
        if !len_ok {
          v.fail(format!("C15|wrong-length|{}|{}", k.name(), form), format!("expected {} terms, got {}: {}", n, o.len(), out.show()));
        } else {
          for (i, e) in o.iter().enumerate() {
            let want = ratio_to_f64(&(ea.clone() + es.clone() * Ratio::from_integer(BigInt::from(i))));
            let got = match e { RVal::S(s) => s.as_f64().unwrap_or(f64::NAN), _ => f64::NAN };
            if !((got - want).abs() <= tol) {
              v.fail(format!("C15|wrong-elements|{}|{}", k.name(), form), format!("element {} is {} expected ≈{}", i, got, want));
              break;
            }
          }
        }
        v.label("tolerant");
      }
    }
  }
  v
}

/// Names the place in the range kernels a failure comes from, so that known findings are keyed by
/// root cause and any other failure keeps a distinct signature.
fn root_cause(c: &Case, k: K, terms: &[num_rational::Ratio<BigInt>], es: &num_rational::Ratio<BigInt>, out: &Outcome) -> &'static str {
  use num_rational::Ratio;
  let errk = match out { Outcome::Err(e) => e.as_str(), _ => "" };
  if k == K::R64 && errk.starts_with("UnhandledFunctionArgumentKind") { return "kind-unsupported"; }
  if terms.is_empty() {
    if k.is_int() && c.s.is_some() {
      let a = sc_int(&c.a).unwrap();
      let b = sc_int(&c.b).unwrap();
      if a.abs() > BigInt::from(1u64 << 53) || b.abs() > BigInt::from(1u64 << 53) { return "size-through-f64"; }
    }
    return "other";
  }
  if k.is_int() {
    let last = terms[terms.len() - 1].clone();
    let maxr = Ratio::from_integer(k.max_int());
    let a = sc_int(&c.a).unwrap();
    let b = sc_int(&c.b).unwrap();
    let big = a.abs() > BigInt::from(1u64 << 53) || b.abs() > BigInt::from(1u64 << 53);
    let span = &b - &a + BigInt::from(1);
    if span > k.max_int() { return "span-overflow"; }
    if &last + es > maxr && errk == "UnknownPanic" { return "advance-past-max"; }
    if big && c.s.is_some() { return "size-through-f64"; }
  } else if k.is_float() && c.s.is_none() && !c.inclusive {
    // unit exclusive float range whose length is not an integer
    let span = terms[terms.len() - 1].clone() - terms[0].clone();
    let _ = span;
    if let (Some(a), Some(b)) = (exact(&c.a), exact(&c.b)) { if !(b - a).is_integer() { return "float-size-truncated"; } }
  }
  "other"
}

fn n_last(s: &[String]) -> usize { s.len() - 1 }

fn ratio_to_f64(r: &num_rational::Ratio<BigInt>) -> f64 {
  // exact for dyadic rationals of moderate size, nearest-ish otherwise (only used with tolerance)
  let n = r.numer().to_f64().unwrap_or(f64::NAN);
  let d = r.denom().to_f64().unwrap_or(f64::NAN);
  n / d
}
