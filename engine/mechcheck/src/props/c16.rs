//! C16 Function and match arms: the first arm that matches is the one that runs.

use crate::engine::*;
use crate::gen::*;
use crate::mech::*;
use crate::rval::*;
use proptest::prelude::*;
use serde::{Deserialize, Serialize};

pub struct C16;

#[derive(Clone, Debug, PartialEq, Serialize, Deserialize)]
pub enum Pat { Lit(u8), Var, Wild,
  /// the variable of an earlier position of the same pattern, written again (position = k mod own position, if that position holds a
  /// variable; otherwise a fresh variable): a repeated variable matches only a value equal to the one it is already bound to
  Same(u8) }

/// resolves `Same(k)` at position j to `Same(i)` with i < j an absolute position holding `Var`, or to `Var`
fn canon(pats: &[Pat]) -> Vec<Pat> {
  let mut out: Vec<Pat> = vec![];
  for (j, p) in pats.iter().enumerate() {
    out.push(match p { Pat::Same(k) if j > 0 && out[*k as usize % j] == Pat::Var => Pat::Same((*k as usize % j) as u8), Pat::Same(_) => Pat::Var, q => q.clone() });
  }
  out
}
/// does the (canonical) pattern list match the values?
fn pats_match(pats: &[Pat], vals: &[f64]) -> bool {
  pats.iter().zip(vals).all(|(p, v)| match p { Pat::Lit(k) => *k as f64 == *v, Pat::Same(i) => vals[*i as usize] == *v, _ => true })
}

#[derive(Clone, Debug, PartialEq, Serialize, Deserialize)]
pub enum Body {
  Const,          // 100*(arm+1)
  Var(u8),        // bound pattern variable #k (by position) + 1000*(arm+1); falls back to Const when position k binds nothing
  Sum,            // sum of all bound pattern variables + 1000*(arm+1)
  Param(u8),      // declared parameter #k + 5000*(arm+1)  (legal in any arm: parameters are in scope)
  /// the value of `Sum`, with every bound variable read through another evaluator of the interpreter (each threads the arm's environment
  /// on its own): 0 = inside a matrix literal reduced by a dot product, 1 = as the arguments of a library call, 2 = parenthesised,
  /// 3 = under a kind annotation
  Wrap(u8),
}

#[derive(Clone, Debug, PartialEq, Serialize, Deserialize)]
pub struct Arm { pub pats: Vec<Pat>, pub body: Body }

/// guard on a match arm: (position of bound variable, comparison, constant) or var-vs-var
#[derive(Clone, Debug, PartialEq, Serialize, Deserialize)]
pub enum Guard { None, VarCmp(u8, u8, u8), VarVar(u8) }

#[derive(Clone, Debug, PartialEq, Serialize, Deserialize)]
pub enum MPat {
  Lit(u8), Var, Tuple(Vec<Pat>),
  ArrEmpty, ArrHead, ArrLast,
  /// `[x … y]` (first and last; needs two elements), `[a, b … c]` (needs three), `[x]` (exactly one), `[a | r]` (head and rest)
  ArrEnds, ArrTwoLast, ArrOne, ArrHeadRest,
  /// enum variant index, payload pattern (None for payload-free variants)
  Variant(u8, Option<Pat>),
}
#[derive(Clone, Debug, PartialEq, Serialize, Deserialize)]
pub struct MArm { pub pat: MPat, pub guard: Guard, pub body: Body }

#[derive(Clone, Debug, PartialEq, Serialize, Deserialize)]
pub enum MVal { Scalar(u8), Tuple(u8, u8), Vector(Vec<u8>), Enum { variant: u8, payload: Option<u8>, with_payload: bool } }

#[derive(Clone, Debug, Serialize, Deserialize)]
pub enum Case {
  /// user function with match arms, called with scalar arguments
  Fun { arity: u8, arms: Vec<Arm>, args: Vec<u8>, call_arity: u8 },
  /// match expression; `wildcard` = append the `*` arm
  /// `shared_names`: pattern variables are drawn from the two names p/q, rotating with arm and position, so that a name an earlier
  /// (losing) arm bound appears in another position of a later arm; otherwise every arm and position has its own name
  Match { val: MVal, arms: Vec<MArm>, wildcard: bool, #[serde(default)] shared_names: bool },
  /// recurrences: which, binding style (0 pattern variables / 1 declared parameters where possible), kind u64?, argument(s)
  Rec { which: u8, style: u8, u64k: bool, n: u32, m: u32 },
  /// single-argument scalar function applied to a matrix
  Broadcast { arms: Vec<Arm>, rows: u8, cols: u8, data: Vec<u8> },
}

fn pat_s() -> BoxedStrategy<Pat> { prop_oneof![6 => (0u8..4).prop_map(Pat::Lit), 4 => Just(Pat::Var), 2 => Just(Pat::Wild), 1 => (0u8..3).prop_map(Pat::Same)].boxed() }
fn body_s(arity: u8) -> BoxedStrategy<Body> { prop_oneof![3 => Just(Body::Const), 3 => (0..arity).prop_map(Body::Var), 1 => Just(Body::Sum), 2 => (0..arity).prop_map(Body::Param), 3 => (0u8..4).prop_map(Body::Wrap)].boxed() }
fn arm_s(arity: u8) -> BoxedStrategy<Arm> { (proptest::collection::vec(pat_s(), arity as usize), body_s(arity)).prop_map(|(pats, body)| Arm { pats, body }).boxed() }

fn guard_s() -> BoxedStrategy<Guard> { prop_oneof![3 => Just(Guard::None), 3 => (0u8..2, 0u8..4, 0u8..4).prop_map(|(v, c, k)| Guard::VarCmp(v, c, k)), 1 => (0u8..4).prop_map(Guard::VarVar)].boxed() }

impl Prop for C16 {
  type Case = Case;
  const ID: &'static str = "C16";
  fn budget(t: Tier) -> u32 { t.pick(20_000, 400_000) }
  fn timeout_ms(_t: Tier) -> u64 { 60_000 }
  fn strategy(_t: Tier, _k: &Known) -> BoxedStrategy<Case> {
    let fun = (1u8..=2).prop_flat_map(|arity| (proptest::collection::vec(arm_s(arity), 1..=5), proptest::collection::vec(0u8..4, arity as usize), prop_oneof![9 => Just(arity), 1 => Just(arity + 1), 1 => Just(arity.max(2) - 1)])
      .prop_map(move |(arms, args, call_arity)| Case::Fun { arity, arms, args, call_arity })).boxed();
    let mval = prop_oneof![
      3 => (0u8..5).prop_map(MVal::Scalar),
      3 => (0u8..4, 0u8..4).prop_map(|(a, b)| MVal::Tuple(a, b)),
      2 => proptest::collection::vec(0u8..5, 1..=4).prop_map(MVal::Vector),
      3 => (0u8..3, proptest::option::of(0u8..4), any::<bool>()).prop_map(|(variant, payload, with_payload)| MVal::Enum { variant, payload: if with_payload { Some(payload.unwrap_or(1)) } else { None }, with_payload }),
    ];
    let mat = mval.prop_flat_map(|val| {
      let pat: BoxedStrategy<MPat> = match &val {
        MVal::Scalar(_) => prop_oneof![3 => (0u8..5).prop_map(MPat::Lit), 3 => Just(MPat::Var)].boxed(),
        MVal::Tuple(..) => proptest::collection::vec(pat_s(), 2).prop_map(MPat::Tuple).boxed(),
        MVal::Vector(_) => prop_oneof![1 => Just(MPat::ArrHead), 1 => Just(MPat::ArrLast), 1 => Just(MPat::ArrEmpty), 2 => Just(MPat::ArrEnds), 2 => Just(MPat::ArrTwoLast), 1 => Just(MPat::ArrOne), 1 => Just(MPat::ArrHeadRest)].boxed(),
        MVal::Enum { with_payload, .. } => { let wp = *with_payload; (0u8..3, pat_s()).prop_map(move |(v, p)| MPat::Variant(v, if wp { Some(p) } else { None })).boxed() }
      };
      (proptest::collection::vec((pat, guard_s(), prop_oneof![2 => Just(Body::Const), 2 => (0u8..2).prop_map(Body::Var), 1 => Just(Body::Sum), 2 => (0u8..4).prop_map(Body::Wrap)]).prop_map(|(pat, guard, body)| MArm { pat, guard, body }), 1..=5), proptest::bool::weighted(0.85), any::<bool>())
        .prop_map(move |(arms, wildcard, shared_names)| Case::Match { val: val.clone(), arms, wildcard, shared_names })
    }).boxed();
    let rec = (0u8..6, 0u8..2, any::<bool>(), 0u32..23, 0u32..13).prop_map(|(which, style, u64k, n, m)| Case::Rec { which, style, u64k, n, m }).boxed();
    let bro = (proptest::collection::vec(arm_s(1), 1..=4), 1u8..=3, 1u8..=3).prop_flat_map(|(arms, rows, cols)| proptest::collection::vec(0u8..4, (rows * cols) as usize).prop_map(move |data| Case::Broadcast { arms: arms.clone(), rows, cols, data })).boxed();
    prop_oneof![5 => fun, 5 => mat, 2 => rec, 1 => bro].boxed()
  }
  fn fixed_cases(_t: Tier) -> Vec<Case> {
    let mut out = vec![];
    // recurrences over their whole small domain, both binding styles, both kinds
    for which in 0..6u8 { for style in 0..2u8 { for u64k in [true, false] { for n in 0..=22u32 { out.push(Case::Rec { which, style, u64k, n, m: (n * 7 + 3) % 13 }); } } } }
    // deep tail recursion
    for style in 0..2u8 { out.push(Case::Rec { which: 4, style, u64k: true, n: 100_000, m: 0 }); out.push(Case::Rec { which: 4, style, u64k: false, n: 30_000, m: 0 }); }
    // every order of a 3-arm list with overlapping patterns, all arguments
    let base = vec![Arm { pats: vec![Pat::Lit(1)], body: Body::Const }, Arm { pats: vec![Pat::Var], body: Body::Var(0) }, Arm { pats: vec![Pat::Wild], body: Body::Param(0) }];
    for p in [[0, 1, 2], [0, 2, 1], [1, 0, 2], [1, 2, 0], [2, 0, 1], [2, 1, 0]] { for a in 0..4u8 { out.push(Case::Fun { arity: 1, arms: p.iter().map(|i| base[*i].clone()).collect(), args: vec![a], call_arity: 1 }); } }
    out
  }
  fn rule() -> &'static str {
    "case ∈ {user function with 1-5 match arms (literal / variable / wildcard / tuple patterns, a variable repeated in a later position (an equality constraint); bodies: constant, bound variable, sum, the sum with every variable read inside a matrix literal / a library call / parentheses / a kind annotation, or \
     a *declared parameter*) called with all small arguments and with wrong arity; match expression over a scalar, tuple, vector or enum \
     value with 1-5 arms (literal, variable, tuple, array head/last/empty, enum variant with/without payload patterns, optional guards) \
     with or without the `*` arm; recurrences (factorial, power, fibonacci, gcd, tail-recursive count and sum, in pattern-variable and \
     declared-parameter styles, u64 and f64, depth up to 100 000 for the tail-recursive ones); scalar function broadcast over a matrix}. \
     Oracle: reference evaluator of the arm list. Non-trivial = ≥2 arms match the argument or a guard is false on a matching pattern; \
     distinct key = (case class, pattern classes in order, selected arm)."
  }
  fn assumptions() -> Vec<String> {
    vec!["all arm bodies are f64 (u64 in the u64 recurrences): the implementation type-checks the bodies of other applicable arms".into(),
         "non-tail recursion depth stays ≤ 22 (arithmetic overflow comes first for every listed recurrence)".into()]
  }
  fn describe(c: &Case) -> String { render(c).0 }
  fn check(c: &Case, _cx: &Cx) -> Verdict { check(c) }
}

fn pat_text(p: &Pat, name: &str) -> String { match p { Pat::Lit(k) => format!("{}", k), Pat::Var | Pat::Same(_) => name.to_string(), Pat::Wild => "*".to_string() } }
/// texts of a canonical pattern list; a repeated variable is written with the name of the position it repeats
fn pats_text(pats: &[Pat], name: &dyn Fn(usize) -> String) -> Vec<String> { pats.iter().enumerate().map(|(j, p)| match p { Pat::Same(i) => name(*i as usize), q => pat_text(q, &name(j)) }).collect() }

fn body_text(b: &Body, bound: &[Option<String>], params: &[String], arm: usize) -> String {
  let names: Vec<String> = bound.iter().flatten().cloned().collect();
  match b {
    Body::Var(k) => match bound.get(*k as usize).and_then(|x| x.clone()) { Some(n) => format!("{} + {}", n, 1000 * (arm + 1)), None => format!("{}", 100 * (arm + 1)) },
    Body::Sum if !names.is_empty() => format!("{} + {}", names.join(" + "), 1000 * (arm + 1)),
    Body::Wrap(w) if !names.is_empty() => match w % 4 {
      0 => format!("[{} 0.0] · [{} 1.0] + {}", names.join(" "), names.iter().map(|_| "1.0").collect::<Vec<_>>().join(" "), 1000 * (arm + 1)),
      1 => format!("{} + {}", names.iter().map(|n| format!("compare/max({}, {})", n, n)).collect::<Vec<_>>().join(" + "), 1000 * (arm + 1)),
      2 => format!("{} + {}", names.iter().map(|n| format!("({})", n)).collect::<Vec<_>>().join(" + "), 1000 * (arm + 1)),
      _ => format!("{} + {}", names.iter().map(|n| format!("{}<f64>", n)).collect::<Vec<_>>().join(" + "), 1000 * (arm + 1)),
    },
    Body::Param(k) if (*k as usize) < params.len() => format!("{} + {}", params[*k as usize], 5000 * (arm + 1)),
    _ => format!("{}", 100 * (arm + 1)),
  }
}
fn body_val(b: &Body, bound: &[Option<f64>], params: &[f64], arm: usize) -> f64 {
  let vals: Vec<f64> = bound.iter().flatten().cloned().collect();
  match b {
    Body::Var(k) => match bound.get(*k as usize).and_then(|x| *x) { Some(v) => v + 1000.0 * (arm + 1) as f64, None => 100.0 * (arm + 1) as f64 },
    Body::Sum | Body::Wrap(_) if !vals.is_empty() => vals.iter().sum::<f64>() + 1000.0 * (arm + 1) as f64,
    Body::Param(k) if (*k as usize) < params.len() => params[*k as usize] + 5000.0 * (arm + 1) as f64,
    _ => 100.0 * (arm + 1) as f64,
  }
}

fn fun_def(name: &str, arity: u8, arms: &[Arm]) -> String {
  let params: Vec<String> = (0..arity).map(|i| format!("q{}", i)).collect();
  let mut s = format!("{}({}) => <f64>\n", name, params.iter().map(|p| format!("{}<f64>", p)).collect::<Vec<_>>().join(", "));
  for (i, a) in arms.iter().enumerate() {
    let cp = canon(&a.pats);
    let bound: Vec<Option<String>> = cp.iter().enumerate().map(|(j, p)| if *p == Pat::Var { Some(format!("v{}x{}", i, j)) } else { None }).collect();
    let pats: Vec<String> = pats_text(&cp, &|j| format!("v{}x{}", i, j));
    let pt = if arity == 1 { pats[0].clone() } else { format!("({})", pats.join(", ")) };
    let last = i + 1 == arms.len();
    s.push_str(&format!("  {} {} => {}{}\n", if last { "└" } else { "├" }, pt, body_text(&a.body, &bound, &params, i), if last { "." } else { "" }));
  }
  s
}

/// reference: index of the selected arm and the value
fn fun_eval(arms: &[Arm], args: &[f64]) -> Option<(usize, f64, usize)> {
  let mut matching = 0;
  let mut sel = None;
  for (i, a) in arms.iter().enumerate() {
    let cp = canon(&a.pats);
    let ok = pats_match(&cp, args);
    if ok {
      matching += 1;
      if sel.is_none() {
        let bound: Vec<Option<f64>> = cp.iter().zip(args).map(|(p, v)| if *p == Pat::Var { Some(*v) } else { None }).collect();
        sel = Some((i, body_val(&a.body, &bound, args, i)));
      }
    }
  }
  sel.map(|(i, v)| (i, v, matching))
}

const ENUM_DEF_PAYLOAD: &str = "<shade> := :red<f64> | :green<f64> | :blue<f64>";
const ENUM_DEF_PLAIN: &str = "<shade> := :red | :green | :blue";
const VARIANTS: [&str; 3] = ["red", "green", "blue"];

fn cmp_text(c: u8) -> &'static str { ["<", ">", "==", "!="][c as usize % 4] }
fn cmp_val(c: u8, a: f64, b: f64) -> bool { match c % 4 { 0 => a < b, 1 => a > b, 2 => a == b, _ => a != b } }

struct MatchModel { selected: Option<usize>, value: f64, matching: usize, guard_false_on_match: bool }

fn render(c: &Case) -> (String, Vec<String>) {
  match c {
    Case::Fun { arity, arms, args, call_arity } => {
      let def = fun_def("fz", *arity, arms);
      let mut a: Vec<String> = args.iter().map(|x| x.to_string()).collect();
      while a.len() < *call_arity as usize { a.push("1".into()); }
      a.truncate((*call_arity as usize).max(1));
      let call = format!("fz({})", a.join(", "));
      (format!("{}{}", def, call), vec![format!("{}\n{}", def, call)])
    }
    Case::Broadcast { arms, rows, cols, data } => {
      let def = fun_def("fz", 1, arms);
      let m = crate::kinds::mat_lit(*rows as usize, *cols as usize, &data.iter().map(|d| f64b(*d as f64)).collect::<Vec<_>>(), &|s| crate::kinds::lit(s));
      (format!("{}fz({})", def, m), vec![format!("{}\nfz({})", def, m)])
    }
    Case::Match { val, arms, wildcard, shared_names } => {
      let mut st = vec![];
      let vtext = match val {
        MVal::Scalar(k) => format!("{}", k),
        MVal::Tuple(a, b) => format!("({}, {})", a, b),
        MVal::Vector(v) => format!("[{}]", v.iter().map(|x| x.to_string()).collect::<Vec<_>>().join(" ")),
        MVal::Enum { variant, payload, with_payload } => {
          st.push(if *with_payload { ENUM_DEF_PAYLOAD.to_string() } else { ENUM_DEF_PLAIN.to_string() });
          match payload { Some(p) if *with_payload => format!(":{}({})", VARIANTS[*variant as usize % 3], p), _ => format!(":{}", VARIANTS[*variant as usize % 3]) }
        }
      };
      if let MVal::Enum { .. } = val { st.push(format!("mv<shade> := {}", vtext)); } else { st.push(format!("mv := {}", vtext)); }
      let mut m = String::from("res<f64> := mv?\n");
      let total = arms.len() + if *wildcard { 1 } else { 0 };
      for (i, a) in arms.iter().enumerate() {
        let (pt, bound) = mpat_text(&a.pat, i, *shared_names);
        let g = guard_text(&a.guard, &bound);
        let last = i + 1 == total;
        m.push_str(&format!("  | {}{} => {}{}\n", pt, g, body_text(&a.body, &bound, &[], i), if last { "." } else { "" }));
      }
      if *wildcard { m.push_str("  | * => 7.\n"); }
      st.push(m.trim_end().to_string());
      st.push("res".into());
      (st.join("\n"), st)
    }
    Case::Rec { which, style, u64k, n, m } => {
      let (def, call) = rec_text(*which, *style, *u64k, *n, *m);
      (format!("{}{}", def, call), vec![format!("{}\n{}", def, call)])
    }
  }
}

fn mpat_text(p: &MPat, arm: usize, shared: bool) -> (String, Vec<Option<String>>) {
  // name of the pattern variable of `arm` at tuple position j (single-variable patterns use position 0)
  let nm = |prefix: &str, j: usize| if shared { ["p", "q"][(arm + j) % 2].to_string() } else if prefix == "w" { format!("w{}x{}", arm, j) } else { format!("{}{}", prefix, arm) };
  match p {
    MPat::Lit(k) => (format!("{}", k), vec![]),
    MPat::Var => { let n = if shared { nm("w", 0) } else { format!("w{}", arm) }; (n.clone(), vec![Some(n)]) }
    MPat::Tuple(ps) => { let ps = canon(ps); let bound: Vec<Option<String>> = ps.iter().enumerate().map(|(j, q)| if *q == Pat::Var { Some(nm("w", j)) } else { None }).collect(); (format!("({})", pats_text(&ps, &|j| nm("w", j)).join(", ")), bound) }
    MPat::ArrEmpty => ("[]".into(), vec![]),
    MPat::ArrHead => { let n = nm("h", 0); (format!("[{} ...]", n), vec![Some(n)]) }
    MPat::ArrLast => { let n = nm("l", 0); (format!("[... {}]", n), vec![Some(n)]) }
    MPat::ArrEnds => { let (a, b) = (nm("w", 0), nm("w", 1)); (format!("[{} … {}]", a, b), vec![Some(a), Some(b)]) }
    MPat::ArrTwoLast => { let (a, b, c) = (nm("w", 0), nm("w", 1), if shared { "r".to_string() } else { nm("w", 2) }); (format!("[{}, {} … {}]", a, b, c), vec![Some(a), Some(b), Some(c)]) }
    MPat::ArrOne => { let a = nm("w", 0); (format!("[{}]", a), vec![Some(a)]) }
    MPat::ArrHeadRest => { let a = nm("w", 0); (format!("[{} | rest{}]", a, arm), vec![Some(a)]) }
    MPat::Variant(v, None) => (format!(":{}", VARIANTS[*v as usize % 3]), vec![]),
    MPat::Variant(v, Some(q)) => { let n = if shared { nm("w", 0) } else { format!("w{}", arm) }; (format!(":{}({})", VARIANTS[*v as usize % 3], pat_text(q, &n)), vec![if matches!(q, Pat::Var | Pat::Same(_)) { Some(n) } else { None }]) }
  }
}
fn guard_text(g: &Guard, bound: &[Option<String>]) -> String {
  let names: Vec<String> = bound.iter().flatten().cloned().collect();
  match g {
    Guard::VarCmp(v, c, k) if !names.is_empty() => format!(", {} {} {}", names[*v as usize % names.len()], cmp_text(*c), k),
    Guard::VarVar(c) if names.len() >= 2 => format!(", {} {} {}", names[0], cmp_text(*c), names[1]),
    _ => String::new(),
  }
}

fn match_eval(val: &MVal, arms: &[MArm]) -> MatchModel {
  let mut mm = MatchModel { selected: None, value: 7.0, matching: 0, guard_false_on_match: false };
  for (i, a) in arms.iter().enumerate() {
    // pattern match → bound values by position
    let bound: Option<Vec<Option<f64>>> = match (&a.pat, val) {
      (MPat::Lit(k), MVal::Scalar(v)) => if k == v { Some(vec![]) } else { None },
      (MPat::Var, MVal::Scalar(v)) => Some(vec![Some(*v as f64)]),
      (MPat::Tuple(ps), MVal::Tuple(x, y)) => { let ps = canon(ps); let vs = [*x as f64, *y as f64]; if pats_match(&ps, &vs) { Some(ps.iter().zip(vs).map(|(p, v)| if *p == Pat::Var { Some(v) } else { None }).collect()) } else { None } }
      (MPat::ArrEmpty, MVal::Vector(v)) => if v.is_empty() { Some(vec![]) } else { None },
      (MPat::ArrHead, MVal::Vector(v)) => v.first().map(|h| vec![Some(*h as f64)]),
      (MPat::ArrLast, MVal::Vector(v)) => v.last().map(|l| vec![Some(*l as f64)]),
      (MPat::ArrEnds, MVal::Vector(v)) => if v.len() >= 2 { Some(vec![Some(v[0] as f64), Some(v[v.len() - 1] as f64)]) } else { None },
      (MPat::ArrTwoLast, MVal::Vector(v)) => if v.len() >= 3 { Some(vec![Some(v[0] as f64), Some(v[1] as f64), Some(v[v.len() - 1] as f64)]) } else { None },
      (MPat::ArrOne, MVal::Vector(v)) => if v.len() == 1 { Some(vec![Some(v[0] as f64)]) } else { None },
      (MPat::ArrHeadRest, MVal::Vector(v)) => v.first().map(|h| vec![Some(*h as f64)]),
      (MPat::Variant(pv, pp), MVal::Enum { variant, payload, .. }) => {
        if pv % 3 != variant % 3 { None } else { match (pp, payload) { (None, _) => Some(vec![]), (Some(Pat::Lit(k)), Some(p)) => if k == p { Some(vec![None]) } else { None }, (Some(Pat::Var | Pat::Same(_)), Some(p)) => Some(vec![Some(*p as f64)]), (Some(Pat::Wild), Some(_)) => Some(vec![None]), (Some(_), None) => None } }
      }
      _ => None,
    };
    let Some(bound) = bound else { continue };
    let vals: Vec<f64> = bound.iter().flatten().cloned().collect();
    let g = match &a.guard {
      Guard::VarCmp(v, c, k) if !vals.is_empty() => cmp_val(*c, vals[*v as usize % vals.len()], *k as f64),
      Guard::VarVar(c) if vals.len() >= 2 => cmp_val(*c, vals[0], vals[1]),
      _ => true,
    };
    if !g { mm.guard_false_on_match = true; continue; }
    mm.matching += 1;
    if mm.selected.is_none() { mm.selected = Some(i); mm.value = body_val(&a.body, &bound, &[], i); }
  }
  mm
}

fn rec_text(which: u8, style: u8, u64k: bool, n: u32, m: u32) -> (String, String) {
  let k = if u64k { "u64" } else { "f64" };
  let l = |x: u64| if u64k { format!("{}u64", x) } else { format!("{}", x) };
  let p = style == 1; // declared-parameter style where a pattern leaves the name unbound
  match which {
    0 => (format!("fact(n<{k}>) => <{k}>\n  ├ {} => {}\n  └ {} => {} * fact({} - {}).\n", l(0), l(1), if p { "*" } else { "j" }, if p { "n" } else { "j" }, if p { "n" } else { "j" }, l(1)), format!("fact({})", l(n.min(20) as u64))),
    1 => (format!("pw(x<{k}>, n<{k}>) => <{k}>\n  ├ (*, {}) => {}\n  └ {} => {} * pw({}, {} - {}).\n", l(0), l(1), if p { "(*, *)" } else { "(b, e)" }, if p { "x" } else { "b" }, if p { "x" } else { "b" }, if p { "n" } else { "e" }, l(1)), format!("pw({}, {})", l(2 + (m % 2) as u64), l(n.min(20) as u64))),
    2 => (format!("fib(n<{k}>) => <{k}>\n  ├ {} => {}\n  ├ {} => {}\n  └ {} => fib({} - {}) + fib({} - {}).\n", l(0), l(0), l(1), l(1), if p { "*" } else { "j" }, if p { "n" } else { "j" }, l(1), if p { "n" } else { "j" }, l(2)), format!("fib({})", l(n.min(18) as u64))),
    3 => (format!("gcd(a<{k}>, b<{k}>) => <{k}>\n  ├ ({}, {}) => {}\n  └ (x, y) => gcd(y, x % y).\n", if p { "*" } else { "g" }, l(0), if p { "a" } else { "g" }), format!("gcd({}, {})", l((n as u64 + 1) * 6), l((m as u64 + 1) * 4))),
    4 => (format!("count(n<{k}>, acc<{k}>) => <{k}>\n  ├ ({}, {}) => {}\n  └ (j, a) => count(j - {}, a + {}).\n", l(0), if p { "*" } else { "r" }, if p { "acc" } else { "r" }, l(1), l(1)), format!("count({}, {})", l(n as u64), l(m as u64))),
    _ => (format!("tsum(n<{k}>, acc<{k}>) => <{k}>\n  ├ ({}, {}) => {}\n  └ (j, a) => tsum(j - {}, a + j).\n", l(0), if p { "*" } else { "r" }, if p { "acc" } else { "r" }, l(1)), format!("tsum({}, {})", l(n as u64), l(m as u64))),
  }
}

fn rec_value(which: u8, n: u32, m: u32) -> u128 {
  fn gcd(a: u128, b: u128) -> u128 { if b == 0 { a } else { gcd(b, a % b) } }
  match which {
    0 => (1..=n.min(20) as u128).product(),
    1 => (2 + (m % 2) as u128).pow(n.min(20)),
    2 => { let (mut a, mut b) = (0u128, 1u128); for _ in 0..n.min(18) { let t = a + b; a = b; b = t; } a }
    3 => gcd((n as u128 + 1) * 6, (m as u128 + 1) * 4),
    4 => n as u128 + m as u128,
    _ => m as u128 + (n as u128 * (n as u128 + 1)) / 2,
  }
}

fn check(c: &Case) -> Verdict {
  let mut v = Verdict::new();
  let (_, stmts) = render(c);
  let mut sess = Session::new();
  let mut out = Outcome::Ok(RVal::S(Sc::Empty));
  for s in &stmts {
    out = sess.run(s);
    if let Outcome::NotCode = out { v.harness(format!("`{}` parsed as prose", s)); return v; }
    if !out.is_ok() { break; }
  }
  if let Outcome::Panic(m) = &out { v.fail("C16|panic-escaped", m.clone()); return v; }
  let text = stmts.join("\n");
  match c {
    Case::Fun { arity, arms, args, call_arity } => {
      v.label("class:function");
      let pc: Vec<String> = arms.iter().map(|a| canon(&a.pats).iter().map(|p| match p { Pat::Lit(_) => "L", Pat::Var => "V", Pat::Wild => "W", Pat::Same(_) => "R" }).collect::<String>()).collect();
      if call_arity != arity {
        v.label("wrong-arity");
        v.key = Some(format!("fun|arity|{}|{}", arity, call_arity));
        if let Outcome::Ok(val) = &out { v.fail("C16|wrong-arity-accepted", format!("call with {} argument(s) of a {}-parameter function evaluated to {}:\n{}", call_arity, arity, val.show(), text)); }
        return v;
      }
      let a: Vec<f64> = args.iter().map(|x| *x as f64).collect();
      match fun_eval(arms, &a) {
        None => {
          v.label("no-matching-arm");
          v.key = Some(format!("fun|nomatch|{}", pc.join(",")));
          if let Outcome::Ok(val) = &out { v.fail("C16|no-matching-arm-gave-value", format!("no arm matches but the call evaluated to {}:\n{}", val.show(), text)); }
        }
        Some((i, want, matching)) => {
          if matching >= 2 { v.key = Some(format!("fun|{}|sel{}|{:?}", pc.join(","), i, arms[i].body)); }
          v.label(format!("selected-arm:{}", i));
          match &out {
            Outcome::Ok(val) => if *val != RVal::S(f64b(want)) { v.fail(format!("C16|function-arm-selection|{}", body_class(&arms[i].body)), format!("expected arm {} → {}, got {}:\n{}", i, want, val.show(), text)); },
            other => v.fail(format!("C16|function-call-rejected|{}", other.class()), format!("expected arm {} → {}, got {}:\n{}", i, want, other.show(), text)),
          }
        }
      }
    }
    Case::Broadcast { arms, rows, cols, data } => {
      v.label("class:broadcast");
      let vals: Vec<Option<f64>> = data.iter().map(|d| fun_eval(arms, &[*d as f64]).map(|x| x.1)).collect();
      v.key = Some(format!("broadcast|{}x{}|{}", rows, cols, arms.len()));
      if vals.iter().any(|x| x.is_none()) { v.label("broadcast-no-arm"); if let Outcome::Ok(val) = &out { v.fail("C16|broadcast-no-matching-arm-gave-value", format!("an element matches no arm but the call evaluated to {}:\n{}", val.show(), text)); } return v; }
      let want = RVal::mat("f64", *rows as usize, *cols as usize, vals.iter().map(|x| f64b(x.unwrap())).collect());
      match &out {
        Outcome::Ok(val) => if *val != want { v.fail("C16|broadcast-wrong", format!("expected {} got {}:\n{}", want.show(), val.show(), text)); },
        other => v.fail(format!("C16|broadcast-rejected|{}", other.class()), format!("expected {} got {}:\n{}", want.show(), other.show(), text)),
      }
    }
    Case::Match { val, arms, wildcard, shared_names } => {
      v.label("class:match");
      let mm = match_eval(val, arms);
      let vc = match val { MVal::Scalar(_) => "scalar", MVal::Tuple(..) => "tuple", MVal::Vector(_) => "vector", MVal::Enum { with_payload: true, .. } => "enum-payload", MVal::Enum { .. } => "enum" };
      v.label(format!("match-on:{}", vc));
      let pc: Vec<String> = arms.iter().map(|a| format!("{}{}", match &a.pat { MPat::Lit(_) => "L", MPat::Var => "V", MPat::Tuple(_) => "T", MPat::ArrEmpty => "E", MPat::ArrHead => "H", MPat::ArrLast => "Z", MPat::ArrEnds => "N", MPat::ArrTwoLast => "W", MPat::ArrOne => "O", MPat::ArrHeadRest => "R", MPat::Variant(_, None) => "v", MPat::Variant(..) => "p" }, if a.guard == Guard::None { "" } else { "g" })).collect();
      if mm.matching >= 2 || mm.guard_false_on_match { v.key = Some(format!("match|{}|{}|sel{:?}|{}", vc, pc.join(","), mm.selected, wildcard)); }
      // exhaustiveness: without `*`, the match is legal only if an enum is fully covered by guard-free, payload-insensitive arms
      // without `*`, the match is legal when every variant of the enum is named by some arm (variant-level coverage,
      // which is what the statement speaks about); anything else must be rejected
      let fully_covered = matches!(val, MVal::Enum { .. }) && (0..3u8).all(|vv| arms.iter().any(|a| matches!(&a.pat, MPat::Variant(pv, _) if pv % 3 == vv)));
      if !*wildcard && !fully_covered {
        v.label("non-exhaustive");
        if let Outcome::Ok(r) = &out { v.fail(format!("C16|non-exhaustive-match-accepted|{}", vc), format!("match has no `*` arm and does not cover every enum variant, but evaluated to {}:\n{}", r.show(), text)); }
        return v;
      }
      if !*wildcard && mm.selected.is_none() { v.label("covered-enum-no-arm-selected"); return v; }
      let want = if mm.selected.is_some() { mm.value } else if *wildcard { 7.0 } else { f64::NAN };
      if want.is_nan() { v.label("covered-enum-no-arm"); return v; }
      match &out {
        Outcome::Ok(r) => if *r != RVal::S(f64b(want)) { v.fail(format!("C16|match-arm-selection|{}|{}", vc, if mm.guard_false_on_match { "guard" } else { "order" }), format!("expected arm {:?} → {}, got {}:\n{}", mm.selected, want, r.show(), text)); },
        other => v.fail(format!("C16|match-rejected|{}|{}", vc, other.class()), format!("expected arm {:?} → {}, got {}:\n{}", mm.selected, want, other.show(), text)),
      }
    }
    Case::Rec { which, style, u64k, n, m } => {
      v.label(format!("class:rec{}", which));
      let want = rec_value(*which, *n, *m);
      v.key = Some(format!("rec|{}|{}|{}|{}", which, style, u64k, (*n).min(25)));
      let wantv = if *u64k { if want > u64::MAX as u128 { v.label("overflow"); return v; } RVal::S(Sc::U(64, want)) } else { if want > (1u128 << 53) { v.label("beyond-2^53"); return v; } RVal::S(f64b(want as f64)) };
      match &out {
        Outcome::Ok(r) => if *r != wantv { v.fail(format!("C16|recurrence-wrong|rec{}|style{}", which, style), format!("expected {} got {}:\n{}", wantv.show(), r.show(), text)); },
        other => v.fail(format!("C16|recurrence-rejected|rec{}|style{}|{}", which, style, other.class()), format!("expected {} got {}:\n{}", wantv.show(), other.show(), text)),
      }
    }
  }
  v
}

impl MArm { fn guard_is_none(&self) -> bool { self.guard == Guard::None } }
fn body_class(b: &Body) -> &'static str { match b { Body::Const => "const", Body::Var(_) => "var", Body::Sum => "sum", Body::Param(_) => "param", Body::Wrap(0) => "wrap-matrix-literal", Body::Wrap(1) => "wrap-call", Body::Wrap(2) => "wrap-parens", Body::Wrap(_) => "wrap-annotation" } }
