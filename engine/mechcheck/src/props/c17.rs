//! C17 State machines run their declared transitions to the terminal state.

use crate::engine::*;
use crate::gen::*;
use crate::mech::*;
use crate::rval::*;
use proptest::prelude::*;
use serde::{Deserialize, Serialize};

pub struct C17;

#[derive(Clone, Debug, PartialEq, Serialize, Deserialize)]
pub enum Guard { Gt(u8, u8), Lt(u8, u8), Eq(u8, u8), Star }

/// update of one payload field in a transition
#[derive(Clone, Debug, PartialEq, Serialize, Deserialize)]
pub enum Upd { Keep, Dec, Add(u8), Const(u8), Copy(u8), AddField(u8) }

#[derive(Clone, Debug, PartialEq, Serialize, Deserialize)]
pub struct Trans { pub target: u8, pub upd: Vec<Upd>, pub done_field: u8 } // target == nstates ⇒ :Done(field done_field)

#[derive(Clone, Debug, PartialEq, Serialize, Deserialize)]
pub enum StateArm { Direct(Trans), Guarded(Vec<(Guard, Trans)>) }

#[derive(Clone, Debug, PartialEq, Serialize, Deserialize)]
pub enum Ill { None, WrongArgKind, TargetWithoutArm { declared: bool }, SelfLoop, UnusedDeclaredState }

#[derive(Clone, Debug, Serialize, Deserialize)]
pub enum Case {
  /// `split`: a guarded list is written as TWO arms for the same state — the guards without the closing `*`, then an unguarded arm
  /// holding the `*` transition (the machine falls through to the later arm when no guard of the first one holds); same semantics
  Scalar { fields: u8, arms: Vec<StateArm>, args: Vec<u8>, ill: Ill, default_limit: bool, #[serde(default)] split: bool },
  /// array-pattern machines: template, initial vector, counter, variant
  Array { template: u8, xs: Vec<u8>, n: u8, variant: u8 },
  /// generated array machine: one state whose arms are an ordered selection from a pool of ten array patterns (head|tail, two-element
  /// prefix|tail, suffix after a spread, both ends, exact lengths 0/1/2, prefix before a spread, …), each with its own transition; the
  /// array shrinks on every step, so the empty and the one-element array are visited. `[h | tail]` and `[]` are appended when missing, so
  /// that some arm always matches; the first matching arm in source order must be the one taken
  Drain { order: Vec<u8>, xs: Vec<u8>, acc: u8 },
  /// machine whose input is declared with a SIZED vector kind (`[u64]:1,L` or `[u64]:L,1`), called with: 0 a matching literal, 1 the other
  /// orientation, 2 one element too many, 3 one too few, 4 f64 elements, 5 a transposed variable of the other orientation
  Sized { len: u8, column: bool, xs: Vec<u8>, form: u8 },
}

const FN: [&str; 3] = ["n", "a", "b"];

fn trans_s(nstates: u8, fields: u8, from: u8, can_dec: bool) -> BoxedStrategy<Trans> {
  // progress: either Done, or decrement n (when guarded by n > c), or a strictly later state with n kept
  let upd_other = move || proptest::collection::vec(prop_oneof![3 => Just(Upd::Keep), 2 => (1u8..4).prop_map(Upd::Add), 1 => (0u8..5).prop_map(Upd::Const), 1 => (0..fields).prop_map(Upd::Copy), 1 => (0..fields).prop_map(Upd::AddField)], fields as usize - 1);
  let later: Vec<u8> = ((from + 1)..nstates).collect();
  let mut opts: Vec<BoxedStrategy<Trans>> = vec![(upd_other(), 0..fields).prop_map(move |(mut u, df)| { u.insert(0, Upd::Keep); Trans { target: nstates, upd: u, done_field: df } }).boxed()];
  if can_dec { opts.push((0..nstates, upd_other()).prop_map(move |(t, mut u)| { u.insert(0, Upd::Dec); Trans { target: t, upd: u, done_field: 0 } }).boxed()); }
  if !later.is_empty() { opts.push((pick(later), upd_other()).prop_map(move |(t, mut u)| { u.insert(0, Upd::Keep); Trans { target: t, upd: u, done_field: 0 } }).boxed()); }
  proptest::strategy::Union::new(opts).boxed()
}

fn arm_s(nstates: u8, fields: u8, from: u8) -> BoxedStrategy<StateArm> {
  let direct = trans_s(nstates, fields, from, false).prop_map(StateArm::Direct).boxed();
  let guarded = (proptest::collection::vec((prop_oneof![3 => (0u8..3).prop_map(|c| Guard::Gt(0, c)), 1 => (0..fields, 0u8..6).prop_map(|(f, c)| Guard::Gt(f, c)), 1 => (0..fields, 1u8..6).prop_map(|(f, c)| Guard::Lt(f, c)), 1 => (0..fields, 0u8..4).prop_map(|(f, c)| Guard::Eq(f, c))]), 1..=3))
    .prop_flat_map(move |gs| {
      let per: Vec<BoxedStrategy<(Guard, Trans)>> = gs.into_iter().map(|g| { let can_dec = matches!(g, Guard::Gt(0, _)); let g2 = g.clone(); trans_s(nstates, fields, from, can_dec).prop_map(move |t| (g2.clone(), t)).boxed() }).collect();
      (per, trans_s(nstates, fields, from, false)).prop_map(|(mut v, last)| { v.push((Guard::Star, last)); StateArm::Guarded(v) })
    }).boxed();
  prop_oneof![1 => direct, 3 => guarded].boxed()
}

impl Prop for C17 {
  type Case = Case;
  const ID: &'static str = "C17";
  fn budget(t: Tier) -> u32 { t.pick(8_000, 120_000) }
  fn timeout_ms(_t: Tier) -> u64 { 120_000 }
  fn timeout_is_violation() -> bool { true }
  fn strategy(_t: Tier, _k: &Known) -> BoxedStrategy<Case> {
    let scalar = (1u8..=4, 1u8..=3).prop_flat_map(|(nstates, fields)| {
      let arms: Vec<BoxedStrategy<StateArm>> = (0..nstates).map(|i| arm_s(nstates, fields, i)).collect();
      (arms, proptest::collection::vec(0u8..6, fields as usize), prop_oneof![12 => Just(Ill::None), 1 => Just(Ill::WrongArgKind), 1 => any::<bool>().prop_map(|declared| Ill::TargetWithoutArm { declared }), 1 => Just(Ill::SelfLoop), 1 => Just(Ill::UnusedDeclaredState)], proptest::bool::weighted(0.4))
        .prop_map(move |(arms, args, ill, split)| Case::Scalar { fields, arms, args, ill, default_limit: false, split })
    }).boxed();
    let array = (0u8..4, proptest::collection::vec(0u8..9, 1..=5), 0u8..5, 0u8..4).prop_map(|(template, xs, n, variant)| Case::Array { template, xs, n, variant }).boxed();
    let drain = (proptest::collection::vec(0u8..10, 1..=5), proptest::collection::vec(0u8..9, 1..=5), 0u8..5).prop_map(|(order, xs, acc)| Case::Drain { order, xs, acc }).boxed();
    let sized = (2u8..=4, any::<bool>(), proptest::collection::vec(1u8..9, 5), 0u8..6).prop_map(|(len, column, xs, form)| Case::Sized { len, column, xs, form }).boxed();
    prop_oneof![5 => scalar, 2 => array, 1 => sized, 3 => drain].boxed()
  }
  fn fixed_cases(_t: Tier) -> Vec<Case> {
    // one non-terminating machine run under the default transition limit
    vec![Case::Scalar { fields: 1, arms: vec![StateArm::Direct(Trans { target: 1, upd: vec![Upd::Keep], done_field: 0 })], args: vec![1], ill: Ill::SelfLoop, default_limit: true, split: false }]
  }
  fn rule() -> &'static str {
    "case = a machine generated from a small transition system (1-4 states + terminal, 1-3 u64 payload fields, per state a direct \
     transition or a guarded branch list closed by `*`, possibly with overlapping guards; every transition makes progress so the machine \
     terminates) run on small inputs, or an ill-formed variant (argument of the wrong kind, transition to a state without an arm, a \
     non-terminating self loop under max_steps=500 and once under the default limit), or an array-pattern machine (head/last/spread \
     patterns, states revisited with changing elements), or a generated drain machine (one state, 2-7 arms in random order from a pool of ten array patterns incl. suffix-after-spread, both ends, exact lengths 0/1/2, \
     the array shrinking to one and zero elements; the arm index of every transition is read from the trace). Oracle: reference simulation; the result *and* the state-name sequence read from \
     the [fsm] step trace events are compared. Non-trivial = ≥3 states visited or a branch taken where two guards hold; distinct key = \
     (machine shape, visited state sequence)."
  }
  fn assumptions() -> Vec<String> {
    vec!["a declared state that has no arm and is never targeted is accepted by the implementation; only states that are transition targets are demanded to have an arm".into(),
         "a state in which no guard holds is not generated (every guarded list ends in `*`)".into()]
  }
  fn describe(c: &Case) -> String { render(c) }
  fn check(c: &Case, _cx: &Cx) -> Verdict { check(c) }
}

fn sname(i: u8, nstates: u8) -> String { if i >= nstates { "Done".to_string() } else { format!("S{}", i) } }

fn guard_text(g: &Guard) -> String {
  match g { Guard::Gt(f, c) => format!("{} > {}u64", FN[*f as usize], c), Guard::Lt(f, c) => format!("{} < {}u64", FN[*f as usize], c), Guard::Eq(f, c) => format!("{} == {}u64", FN[*f as usize], c), Guard::Star => "*".to_string() }
}
fn upd_text(u: &Upd, field: usize) -> String {
  let me = FN[field];
  match u { Upd::Keep => me.to_string(), Upd::Dec => format!("{} - 1u64", me), Upd::Add(c) => format!("{} + {}u64", me, c), Upd::Const(c) => format!("{}u64", c), Upd::Copy(f) => FN[*f as usize].to_string(), Upd::AddField(f) => format!("{} + {}", me, FN[*f as usize]) }
}
fn trans_text(t: &Trans, nstates: u8, fields: u8) -> String {
  if t.target >= nstates { format!(":Done({})", FN[t.done_field as usize % fields as usize]) }
  else { format!(":S{}({})", t.target, (0..fields as usize).map(|i| upd_text(&t.upd[i], i)).collect::<Vec<_>>().join(", ")) }
}

fn render(c: &Case) -> String {
  match c {
    Case::Scalar { fields, arms, args, ill, split, .. } => {
      let nstates = arms.len() as u8;
      let f = *fields as usize;
      let decl: Vec<String> = (0..f).map(|i| format!("{}<u64>", FN[i])).collect();
      let mut s = format!("#M({}) => <u64>\n", decl.join(", "));
      for i in 0..nstates { s.push_str(&format!("  ├ :S{}({})\n", i, decl.join(", "))); }
      if matches!(ill, Ill::TargetWithoutArm { declared: true } | Ill::UnusedDeclaredState) { s.push_str(&format!("  ├ :Ghost({})\n", decl.join(", "))); }
      s.push_str("  └ :Done(out<u64>).\n\n");
      let names: Vec<&str> = (0..f).map(|i| FN[i]).collect();
      s.push_str(&format!("#M({}) -> :S0({})\n", decl.join(", "), names.join(", ")));
      for (i, arm) in arms.iter().enumerate() {
        let head = format!("  :S{}({})", i, names.join(", "));
        if i == 0 && *ill == Ill::SelfLoop { s.push_str(&format!("{} -> :S0({})\n", head, names.join(", "))); continue; }
        if i == 0 && matches!(ill, Ill::TargetWithoutArm { .. }) { s.push_str(&format!("{} -> :Ghost({})\n", head, names.join(", "))); continue; }
        match arm {
          StateArm::Direct(t) => s.push_str(&format!("{} -> {}\n", head, trans_text(t, nstates, *fields))),
          StateArm::Guarded(gs) if *split && gs.len() >= 2 => {
            s.push_str(&format!("{}\n", head));
            let n = gs.len() - 1;
            for (k, (g, t)) in gs.iter().take(n).enumerate() { s.push_str(&format!("    {} {} -> {}\n", if k + 1 == n { "└" } else { "├" }, guard_text(g), trans_text(t, nstates, *fields))); }
            s.push_str(&format!("{} -> {}\n", head, trans_text(&gs[n].1, nstates, *fields)));
          }
          StateArm::Guarded(gs) => {
            s.push_str(&format!("{}\n", head));
            for (k, (g, t)) in gs.iter().enumerate() { s.push_str(&format!("    {} {} -> {}\n", if k + 1 == gs.len() { "└" } else { "├" }, guard_text(g), trans_text(t, nstates, *fields))); }
          }
        }
      }
      s.push_str("  :Done(out) => out.\n\n");
      let a: Vec<String> = args.iter().enumerate().map(|(i, x)| if i == 0 && *ill == Ill::WrongArgKind { format!("{}.5", x) } else { format!("{}u64", x) }).collect();
      s.push_str(&format!("#M({})", a.join(", ")));
      s
    }
    Case::Sized { len, column, xs, form } => {
      let l = *len as usize;
      let kind = if *column { format!("[u64]:{},1", l) } else { format!("[u64]:1,{}", l) };
      let lit = |n: usize, col: bool, f64s: bool| format!("[{}]", (0..n).map(|i| if f64s { format!("{}.0", xs[i % 5]) } else { format!("{}u64", xs[i % 5]) }).collect::<Vec<_>>().join(if col { "; " } else { " " }));
      let (pre, arg) = match form % 6 { 0 => (String::new(), lit(l, *column, false)), 1 => (String::new(), lit(l, !*column, false)), 2 => (String::new(), lit(l + 1, *column, false)), 3 => (String::new(), lit(l - 1, *column, false)), 4 => (String::new(), lit(l, *column, true)), _ => (format!("w := {}\n", lit(l, *column, false)), "w'".to_string()) };
      format!("{}#First(xs<{}>) => <u64>\n  ├ :Start(xs<{}>)\n  └ :Done(out<u64>).\n\n#First(xs<{}>) -> :Start(xs)\n  :Start([x ...]) -> :Done(x)\n  :Done(out) => out.\n\n#First({})", pre, kind, kind, kind, arg)
    }
    Case::Drain { order, xs, acc } => {
      let v = format!("[{}]", xs.iter().map(|x| format!("{}u64", x)).collect::<Vec<_>>().join(" "));
      let arms = drain_arms(order).iter().map(|k| format!("  :Go({}, acc) -> {}\n", DRAIN_POOL[*k as usize].0, DRAIN_POOL[*k as usize].1)).collect::<String>();
      format!("#Dr(xs<[u64]>, acc<u64>) => <u64>\n  ├ :Go(xs<[u64]>, acc<u64>)\n  └ :Done(out<u64>).\n\n#Dr(xs<[u64]>, acc<u64>) -> :Go(xs, acc)\n{}  :Done(out) => out.\n\n#Dr({}, {}u64)", arms, v, acc)
    }
    Case::Array { template, xs, n, variant } => {
      let v = format!("[{}]", xs.iter().map(|x| format!("{}u64", x)).collect::<Vec<_>>().join(" "));
      let out = if variant % 2 == 0 { "x" } else { "y" };
      match template % 4 {
        0 => format!("#Swap(xs<[u64]>, n<u64>) => <u64>\n  ├ :Scan(xs<[u64]>, n<u64>)\n  └ :Done(out<u64>).\n\n#Swap(xs<[u64]>, n<u64>) -> :Scan(xs, n)\n  :Scan([x … y], n)\n    ├ n > 0u64 -> :Scan([y x], n - 1u64)\n    └ n == 0u64 -> :Done({})\n  :Done(out) => out.\n\n#Swap({}, {}u64)", out, v, n),
        1 => format!("#Sum(xs<[u64]>, acc<u64>) => <u64>\n  ├ :Go(xs<[u64]>, acc<u64>)\n  └ :Done(out<u64>).\n\n#Sum(xs<[u64]>, acc<u64>) -> :Go(xs, acc)\n  :Go([h | tail], acc) -> :Go(tail, acc + h)\n  :Go([], acc) -> :Done(acc)\n  :Done(out) => out.\n\n#Sum({}, {}u64)", v, n),
        2 => format!("#Rot(xs<[u64]>, n<u64>) => <u64>\n  ├ :Scan(xs<[u64]>, n<u64>)\n  └ :Done(out<u64>).\n\n#Rot(xs<[u64]>, n<u64>) -> :Scan(xs, n)\n  :Scan([x … y], n)\n    ├ n > 0u64 -> :Scan([y x n], n - 1u64)\n    └ * -> :Done({})\n  :Done(out) => out.\n\n#Rot({}, {}u64)", out, v, n),
        _ => format!("#Last(xs<[u64]>, n<u64>) => <u64>\n  ├ :Scan(xs<[u64]>, n<u64>)\n  └ :Done(out<u64>).\n\n#Last(xs<[u64]>, n<u64>) -> :Scan(xs, n)\n  :Scan([... y], n)\n    ├ n > 0u64 -> :Scan([n y n], n - 1u64)\n    └ * -> :Done(y)\n  :Done(out) => out.\n\n#Last({}, {}u64)", v, n),
      }
    }
  }
}

/// reference simulation: (result, visited state names, took a branch where ≥2 guards held)
fn simulate(fields: u8, arms: &[StateArm], args: &[u8]) -> Option<(u128, Vec<String>, bool)> {
  let nstates = arms.len() as u8;
  let mut st: u8 = 0;
  let mut f: Vec<u128> = args.iter().map(|x| *x as u128).collect();
  let mut seq = vec!["S0".to_string()];
  let mut overlap = false;
  for _ in 0..10_000 {
    let arm = &arms[st as usize];
    let tr: &Trans = match arm {
      StateArm::Direct(t) => t,
      StateArm::Guarded(gs) => {
        let holds = |g: &Guard| match g { Guard::Gt(x, c) => f[*x as usize] > *c as u128, Guard::Lt(x, c) => f[*x as usize] < *c as u128, Guard::Eq(x, c) => f[*x as usize] == *c as u128, Guard::Star => true };
        let n = gs.iter().filter(|(g, _)| holds(g)).count();
        if n >= 3 || (n == 2 && !matches!(gs.iter().filter(|(g, _)| holds(g)).nth(0).unwrap().0, Guard::Star)) { overlap = overlap || gs.iter().filter(|(g, _)| *g != Guard::Star && holds(g)).count() >= 2; }
        &gs.iter().find(|(g, _)| holds(g))?.1
      }
    };
    if tr.target >= nstates { seq.push("Done".into()); return Some((f[tr.done_field as usize % fields as usize], seq, overlap)); }
    let old = f.clone();
    for i in 0..fields as usize {
      f[i] = match &tr.upd[i] { Upd::Keep => old[i], Upd::Dec => old[i].checked_sub(1)?, Upd::Add(c) => old[i] + *c as u128, Upd::Const(c) => *c as u128, Upd::Copy(j) => old[*j as usize], Upd::AddField(j) => old[i] + old[*j as usize] };
      if f[i] > u64::MAX as u128 { return None; }
    }
    st = tr.target;
    seq.push(sname(st, nstates));
  }
  None
}

/// (pattern, transition) of the drain machine's arm pool
const DRAIN_POOL: [(&str, &str); 10] = [
  ("[h | tail]", ":Go(tail, acc + h)"),
  ("[… y]", ":Done(acc + y)"),
  ("[… y z]", ":Done(acc + y * 10u64 + z)"),
  ("[x … y]", ":Go([x], acc + y)"),
  ("[x]", ":Done(acc + x + 100u64)"),
  ("[]", ":Done(acc)"),
  ("[x y]", ":Go([y], acc + x)"),
  ("[x …]", ":Done(acc + x + 1000u64)"),
  ("[a b | tail]", ":Go(tail, acc + a * b)"),
  ("[x y … z]", ":Go([y z], acc + x)"),
];

/// the arm list: the distinct entries of `order`, then `[h | tail]` and `[]` if they are missing
fn drain_arms(order: &[u8]) -> Vec<u8> {
  let mut a: Vec<u8> = vec![];
  for k in order { let k = k % 10; if !a.contains(&k) { a.push(k); } }
  for k in [0u8, 5] { if !a.contains(&k) { a.push(k); } }
  a
}

/// reference run of the drain machine: result and the index of the arm taken at every step
fn simulate_drain(order: &[u8], xs: &[u8], acc: u8) -> (u128, Vec<usize>) {
  let arms = drain_arms(order);
  let mut v: Vec<u128> = xs.iter().map(|x| *x as u128).collect();
  let mut acc = acc as u128;
  let mut taken = vec![];
  loop {
    let n = v.len();
    let hit = arms.iter().position(|k| match k { 0 | 1 | 7 => n >= 1, 2 | 3 | 8 => n >= 2, 4 => n == 1, 5 => n == 0, 6 => n == 2, _ => n >= 3 }).expect("[h | tail] and [] cover every array");
    taken.push(hit);
    match arms[hit] {
      0 => { acc += v[0]; v = v[1..].to_vec(); }
      1 => return (acc + v[n - 1], taken),
      2 => return (acc + v[n - 2] * 10 + v[n - 1], taken),
      3 => { acc += v[n - 1]; v = vec![v[0]]; }
      4 => return (acc + v[0] + 100, taken),
      5 => return (acc, taken),
      6 => { acc += v[0]; v = vec![v[1]]; }
      7 => return (acc + v[0] + 1000, taken),
      8 => { acc += v[0] * v[1]; v = v[2..].to_vec(); }
      _ => { acc += v[0]; v = vec![v[1], v[n - 1]]; }
    }
  }
}

fn simulate_array(template: u8, xs: &[u8], n: u8, variant: u8) -> (u128, usize) {
  let mut v: Vec<u128> = xs.iter().map(|x| *x as u128).collect();
  let mut n = n as u128;
  let mut visits = 1;
  match template % 4 {
    0 => { loop { let (x, y) = (v[0], v[v.len() - 1]); if n > 0 { v = vec![y, x]; n -= 1; visits += 1; } else { return (if variant % 2 == 0 { x } else { y }, visits); } } }
    1 => { let mut acc = n; for h in &v { acc += *h; visits += 1; } (acc, visits) }
    2 => { loop { let (x, y) = (v[0], v[v.len() - 1]); if n > 0 { v = vec![y, x, n]; n -= 1; visits += 1; } else { return (if variant % 2 == 0 { x } else { y }, visits); } } }
    _ => { loop { let y = v[v.len() - 1]; if n > 0 { v = vec![n, y, n]; n -= 1; visits += 1; } else { return (y, visits); } } }
  }
}

fn traced_run(src: &str, max_steps: Option<usize>) -> (Outcome, Vec<String>) {
  let mut sess = Session::new();
  sess.intrp.set_trace_enabled(true);
  sess.intrp.set_trace_to_stdout(false);
  if let Some(m) = max_steps { sess.intrp.max_steps = m; }
  let out = sess.run(src);
  let mut seq = vec![];
  for e in sess.intrp.trace_events() {
    if e.channel.as_deref() == Some("fsm") && e.label.as_deref().map(|l| l.trim()) == Some("step") {
      if let Some(p) = e.message.find(" :") { let rest = &e.message[p + 2..]; let name: String = rest.chars().take_while(|c| c.is_alphanumeric()).collect(); seq.push(name); }
    }
  }
  (out, seq)
}

/// like traced_run, plus the arm index of every `[transition] arm[k]` event (the output arm of the final state is not a transition)
fn traced_run_arms(src: &str, max_steps: Option<usize>) -> (Outcome, Vec<String>, Vec<usize>) {
  let mut sess = Session::new();
  sess.intrp.set_trace_enabled(true);
  sess.intrp.set_trace_to_stdout(false);
  if let Some(m) = max_steps { sess.intrp.max_steps = m; }
  let out = sess.run(src);
  let (mut seq, mut arms) = (vec![], vec![]);
  for e in sess.intrp.trace_events() {
    if e.channel.as_deref() != Some("fsm") { continue; }
    match e.label.as_deref().map(|l| l.trim()) {
      Some("step") => { if let Some(p) = e.message.find(" :") { let rest = &e.message[p + 2..]; seq.push(rest.chars().take_while(|c| c.is_alphanumeric()).collect()); } }
      Some("transition") => { if let Some(p) = e.message.find("arm[") { if let Ok(k) = e.message[p + 4..].chars().take_while(|c| c.is_ascii_digit()).collect::<String>().parse::<usize>() { arms.push(k); } } }
      _ => {}
    }
  }
  (out, seq, arms)
}

fn check(c: &Case) -> Verdict {
  let mut v = Verdict::new();
  let src = render(c);
  match c {
    Case::Scalar { fields, arms, args, ill, default_limit, .. } => {
      let limit = if *default_limit { None } else { Some(500) };
      let (out, seq) = traced_run(&src, limit);
      if let Outcome::NotCode | Outcome::ParseErr(_) = out { v.harness(format!("machine did not parse as code ({}):\n{}", out.show(), src)); return v; }
      if let Outcome::Panic(m) = &out { v.fail("C17|panic-escaped", format!("{}\n{}", m, src)); return v; }
      v.label(format!("ill:{:?}", ill).chars().take(28).collect::<String>());
      match ill {
        Ill::WrongArgKind | Ill::TargetWithoutArm { .. } | Ill::SelfLoop => {
          v.key = Some(format!("ill|{:?}|{}|{}|{}", ill, arms.len(), fields, out.class()));
          if let Outcome::Ok(val) = &out { v.fail(format!("C17|ill-formed-accepted|{}", match ill { Ill::WrongArgKind => "wrong-argument-kind", Ill::SelfLoop => "non-terminating", _ => "target-without-arm" }), format!("evaluated to {}:\n{}", val.show(), src)); }
          if *ill == Ill::SelfLoop { if let Outcome::Err(k) = &out { if k != "FsmExceededTransitionLimit" { v.label(format!("loop-error:{}", k)); } } }
          return v;
        }
        _ => {}
      }
      let Some((want, wseq, overlap)) = simulate(*fields, arms, args) else { v.discard("model-overflow-or-stuck"); return v; };
      let shape: String = arms.iter().map(|a| match a { StateArm::Direct(_) => "d".to_string(), StateArm::Guarded(g) => format!("g{}", g.len()) }).collect::<Vec<_>>().join("");
      if wseq.len() >= 3 || overlap { v.key = Some(format!("{}|{}|{}|{}", shape, fields, wseq.join(">"), overlap)); }
      v.label(format!("visited:{}", wseq.len().min(9)));
      if overlap { v.label("overlapping-guards"); }
      match &out {
        Outcome::Ok(val) => {
          if *val != RVal::S(Sc::U(64, want)) { v.fail(format!("C17|wrong-result|{}", if overlap { "overlapping-guards" } else { "plain" }), format!("expected {}u64 via {} but got {} via {}:\n{}", want, wseq.join(">"), val.show(), seq.join(">"), src)); return v; }
          if seq != wseq { v.fail("C17|wrong-state-sequence", format!("expected {} observed {} (result {}):\n{}", wseq.join(">"), seq.join(">"), val.show(), src)); }
        }
        other => v.fail(format!("C17|well-formed-rejected|{}", other.class()), format!("expected {}u64 via {}, got {}:\n{}", want, wseq.join(">"), other.show(), src)),
      }
    }
    Case::Sized { len, column, xs, form } => {
      let out = Session::new().run(&src);
      if let Outcome::NotCode | Outcome::ParseErr(_) = out { v.harness(format!("machine did not parse as code ({}):\n{}", out.show(), src)); return v; }
      if let Outcome::Panic(m) = &out { v.fail("C17|panic-escaped", format!("{}\n{}", m, src)); return v; }
      v.label(format!("sized-input:form{}", form % 6));
      v.key = Some(format!("sized|{}|{}|{}", len, column, form % 6));
      if form % 6 == 0 {
        if !matches!(&out, Outcome::Ok(val) if *val == RVal::S(Sc::U(64, xs[0] as u128))) { v.fail("C17|sized-input-wrong", format!("expected {}u64, got {}:\n{}", xs[0], out.show(), src)); }
      } else if out.is_ok() {
        v.fail(format!("C17|ill-formed-accepted|sized-input|{}", ["", "other-orientation", "too-long", "too-short", "element-kind", "transposed-variable"][(*form % 6) as usize]), format!("an argument that does not have the declared kind must be rejected, got {}:\n{}", out.show(), src));
      }
    }
    Case::Drain { order, xs, acc } => {
      let (out, seq, arms_taken) = traced_run_arms(&src, Some(500));
      if let Outcome::NotCode | Outcome::ParseErr(_) = out { v.harness(format!("machine did not parse as code ({}):\n{}", out.show(), src)); return v; }
      if let Outcome::Panic(m) = &out { v.fail("C17|panic-escaped", format!("{}\n{}", m, src)); return v; }
      v.label("array-drain-machine");
      let (want, taken) = simulate_drain(order, xs, *acc);
      let arms = drain_arms(order);
      for k in &arms { v.label(format!("drain-arm:{}", DRAIN_POOL[*k as usize].0)); }
      let fell_through = taken.iter().any(|t| *t > 0);
      if fell_through { v.key = Some(format!("drain|{:?}|{}|{:?}", arms, xs.len(), taken)); }
      match &out {
        Outcome::Ok(val) => {
          if *val != RVal::S(Sc::U(64, want)) { v.fail("C17|array-machine-wrong|drain", format!("expected {}u64 (arms taken {:?}), got {} (states {}, arms {:?}):\n{}", want, taken, val.show(), seq.join(">"), arms_taken, src)); return v; }
          if arms_taken != taken { v.fail("C17|array-machine-arm-sequence|drain", format!("expected arms {:?}, the trace shows {:?}:\n{}", taken, arms_taken, src)); }
        }
        other => v.fail(format!("C17|array-machine-rejected|drain|{}", other.class()), format!("expected {}u64 (arms {:?}), got {} (trace arms {:?}):\n{}", want, taken, other.show(), arms_taken, src)),
      }
    }
    Case::Array { template, xs, n, variant } => {
      if matches!(template % 4, 0 | 2) && xs.len() < 2 { v.discard("spread pattern with two ends needs two elements"); return v; }
      let (out, seq) = traced_run(&src, Some(500));
      if let Outcome::NotCode | Outcome::ParseErr(_) = out { v.harness(format!("machine did not parse as code ({}):\n{}", out.show(), src)); return v; }
      if let Outcome::Panic(m) = &out { v.fail("C17|panic-escaped", format!("{}\n{}", m, src)); return v; }
      v.label(format!("array-template:{}", template % 4));
      let (want, visits) = simulate_array(*template, xs, *n, *variant);
      v.key = Some(format!("array|{}|{}|{}|{}", template % 4, xs.len(), n, variant % 2));
      match &out {
        Outcome::Ok(val) => {
          if *val != RVal::S(Sc::U(64, want)) { v.fail(format!("C17|array-machine-wrong|template{}", template % 4), format!("expected {}u64 after {} visits, got {} (states {}):\n{}", want, visits, val.show(), seq.join(">"), src)); return v; }
          if seq.len() != visits + 1 { v.fail(format!("C17|array-machine-state-sequence|template{}", template % 4), format!("expected {} state visits + Done, observed {}:\n{}", visits, seq.join(">"), src)); }
        }
        other => v.fail(format!("C17|array-machine-rejected|template{}|{}", template % 4, other.class()), format!("expected {}u64, got {}:\n{}", want, other.show(), src)),
      }
    }
  }
  v
}
