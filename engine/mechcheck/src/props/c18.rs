//! C18 Table joins are the relational-algebra joins on the shared columns.

use crate::engine::*;
use crate::gen::*;
use crate::mech::*;
use crate::rval::*;
use proptest::prelude::*;
use serde::{Deserialize, Serialize};

pub struct C18;

#[derive(Clone, Copy, Debug, PartialEq, Eq, Hash, Serialize, Deserialize)]
pub enum CK { U8, U64, F64, Str, Bool, I64, F32, R64 }
impl CK {
  fn name(&self) -> &'static str { match self { CK::U8 => "u8", CK::U64 => "u64", CK::F64 => "f64", CK::Str => "string", CK::Bool => "bool", CK::I64 => "i64", CK::F32 => "f32", CK::R64 => "r64" } }
  /// cell text in a table literal and reference value for key index v (0..3)
  fn cell(&self, v: u8) -> (String, RVal) {
    match self {
      CK::U8 => (format!("{}", v + 1), RVal::S(Sc::U(8, v as u128 + 1))),
      CK::U64 => (format!("{}", (v as u64 + 1) * 10), RVal::S(Sc::U(64, (v as u128 + 1) * 10))),
      CK::F64 => (format!("{}.5", v), RVal::S(f64b(v as f64 + 0.5))),
      CK::Str => (format!("\"{}\"", ["x", "y", "zz"][v as usize % 3]), RVal::S(Sc::Str(["x", "y", "zz"][v as usize % 3].to_string()))),
      CK::Bool => (format!("{}", v % 2 == 0), RVal::S(Sc::Bool(v % 2 == 0))),
      CK::I64 => (format!("{}", [-1i64, 0, 7][v as usize % 3]), RVal::S(Sc::I(64, [-1i128, 0, 7][v as usize % 3]))),
      CK::F32 => (format!("{}", ["1.5", "-2.25", "0.0"][v as usize % 3]), RVal::S(f32b([1.5f32, -2.25, 0.0][v as usize % 3]))),
      CK::R64 => (format!("{}", ["1/2", "2/3", "3/4"][v as usize % 3]), RVal::S(Sc::R([1, 2, 3][v as usize % 3], [2, 3, 4][v as usize % 3]))),
    }
  }
}

#[derive(Clone, Copy, Debug, PartialEq, Eq, Hash, Serialize, Deserialize)]
pub enum Join { Inner, Left, Right, Full, Semi, Anti }
const JOINS: [Join; 6] = [Join::Inner, Join::Left, Join::Right, Join::Full, Join::Semi, Join::Anti];
impl Join {
  fn sym(&self) -> &'static str { match self { Join::Inner => "⋈", Join::Left => "⟕", Join::Right => "⟖", Join::Full => "⟗", Join::Semi => "⋉", Join::Anti => "▷" } }
  fn word(&self) -> &'static str { match self { Join::Inner => "table/join", Join::Left => "table/left-outer-join", Join::Right => "table/right-outer-join", Join::Full => "table/full-outer-join", Join::Semi => "table/left-semi-join", Join::Anti => "table/left-anti-join" } }
}

#[derive(Clone, Debug, Serialize, Deserialize)]
pub struct Tbl { pub cols: Vec<(String, CK)>, pub rows: Vec<Vec<u8>> }

#[derive(Clone, Debug, Serialize, Deserialize)]
pub enum Sel { Row(u8), Rows(Vec<u8>), Mask(Vec<bool>), Col(u8), Range(u8, u8, bool), RowsVar(Vec<u8>), MaskVar(Vec<bool>) }

#[derive(Clone, Debug, Serialize, Deserialize)]
pub enum Case {
  Join { a: Tbl, b: Tbl, op: Join, word: bool },
  Select { t: Tbl, sel: Sel },
  /// two-stage join: J = a op1 b, then J op2 c (style bit 0: J through a variable `tj`; bit 1: J is the right operand)
  Chain { a: Tbl, b: Tbl, c: Tbl, op1: Join, op2: Join, w1: bool, w2: bool, style: u8 },
  /// row selection on the result of a join (through the variable `tj`)
  SelectJoin { a: Tbl, b: Tbl, op: Join, sel: Sel },
}

fn ck_s() -> BoxedStrategy<CK> { pick(vec![CK::U8, CK::U64, CK::F64, CK::Str, CK::Bool, CK::I64, CK::F32, CK::R64]) }

fn pair_s() -> BoxedStrategy<(Tbl, Tbl)> {
  // shared columns (0-2) with common kinds, then own columns (A: 0-2, B: 0-2), at least one column each, at most 3
  (proptest::collection::vec(ck_s(), 0..=2), proptest::collection::vec(ck_s(), 0..=2), proptest::collection::vec(ck_s(), 0..=2), 1usize..=5, 1usize..=5, 0u8..4)
    .prop_flat_map(|(shared, owna, ownb, ra, rb, arr)| {
      let mut ca: Vec<(String, CK)> = vec![]; let mut cb: Vec<(String, CK)> = vec![];
      let sh: Vec<(String, CK)> = shared.iter().enumerate().map(|(i, k)| (["id", "key"][i].to_string(), *k)).collect();
      let oa: Vec<(String, CK)> = owna.iter().enumerate().map(|(i, k)| (["xa", "ya"][i].to_string(), *k)).collect();
      let ob: Vec<(String, CK)> = ownb.iter().enumerate().map(|(i, k)| (["xb", "yb"][i].to_string(), *k)).collect();
      match arr {
        0 => { ca.extend(sh.clone()); ca.extend(oa.clone()); cb.extend(ob.clone()); cb.extend(sh.clone()); }
        1 => { ca.extend(oa.clone()); ca.extend(sh.clone()); cb.extend(sh.clone()); cb.extend(ob.clone()); }
        // interleaved: an own column between / around the shared ones, shared columns in opposite orders on the two sides
        2 => { let mut o = oa.clone().into_iter(); let mut q = ob.clone().into_iter(); if let Some(x) = o.next() { ca.push(x); } ca.extend(sh.clone()); ca.extend(o); cb.extend(sh.iter().rev().cloned()); cb.extend(q.by_ref()); }
        _ => { let mut o = oa.clone().into_iter(); let mut q = ob.clone().into_iter(); let mut h = sh.clone().into_iter(); if let Some(x) = h.next() { ca.push(x.clone()); } ca.extend(o.by_ref()); ca.extend(h); if let Some(x) = q.next() { cb.push(x); } cb.extend(sh.iter().rev().cloned()); cb.extend(q); }
      }
      if ca.is_empty() { ca.push(("xa".into(), CK::U64)); }
      if cb.is_empty() { cb.push(("xb".into(), CK::U64)); }
      ca.truncate(4); cb.truncate(4);
      let (na, nb) = (ca.len(), cb.len());
      (proptest::collection::vec(proptest::collection::vec(0u8..3, na), ra), proptest::collection::vec(proptest::collection::vec(0u8..3, nb), rb))
        .prop_map(move |(rowsa, rowsb)| (Tbl { cols: ca.clone(), rows: rowsa }, Tbl { cols: cb.clone(), rows: rowsb }))
    }).boxed()
}

impl Prop for C18 {
  type Case = Case;
  const ID: &'static str = "C18";
  fn budget(t: Tier) -> u32 { t.pick(10_000, 100_000) }
  fn strategy(_t: Tier, _k: &Known) -> BoxedStrategy<Case> {
    let join = (pair_s(), pick(JOINS.to_vec()), proptest::bool::weighted(0.3)).prop_map(|((a, b), op, word)| Case::Join { a, b, op, word }).boxed();
    let sel = pair_s().prop_flat_map(|(t, _)| {
      let n = t.rows.len() as u8; let nc = t.cols.len() as u8;
      let s = prop_oneof![
        (1..=n).prop_map(Sel::Row),
        proptest::collection::vec(1..=n, 2..=4).prop_map(Sel::Rows),
        proptest::collection::vec(any::<bool>(), n as usize).prop_map(Sel::Mask),
        (0..nc).prop_map(Sel::Col),
      ];
      s.prop_map(move |sel| Case::Select { t: t.clone(), sel })
    }).boxed();
    // third table of a chain: 1-3 columns drawn from the names (and kinds) of a and b plus two own names
    let chain = (pair_s(), proptest::collection::vec(0usize..64, 1..=3), ck_s(), ck_s(), 1usize..=4, pick(JOINS.to_vec()), pick(JOINS.to_vec()), proptest::bool::weighted(0.25), proptest::bool::weighted(0.25), 0u8..4)
      .prop_flat_map(|((a, b), ixs, k1, k2, rc, op1, op2, w1, w2, style)| {
        let mut pool: Vec<(String, CK)> = vec![];
        for c in a.cols.iter().chain(b.cols.iter()) { if !pool.iter().any(|(n, _)| *n == c.0) { pool.push(c.clone()); } }
        pool.push(("xc".into(), k1)); pool.push(("yc".into(), k2));
        let mut cc: Vec<(String, CK)> = vec![];
        for i in ixs { let e = pool[i * pool.len() >> 6].clone(); if !cc.iter().any(|(n, _)| *n == e.0) { cc.push(e); } }
        let nc = cc.len();
        proptest::collection::vec(proptest::collection::vec(0u8..3, nc), rc).prop_map(move |rows| Case::Chain { a: a.clone(), b: b.clone(), c: Tbl { cols: cc.clone(), rows }, op1, op2, w1, w2, style })
      }).boxed();
    let sel2 = pair_s().prop_flat_map(|(t, _)| {
      let n = t.rows.len() as u8;
      let s = prop_oneof![
        (1..=n, 0..=n, any::<bool>()).prop_map(|(lo, len, incl)| Sel::Range(lo, lo + len, incl)),
        proptest::collection::vec(1..=n, 2..=5).prop_map(Sel::RowsVar),
        proptest::collection::vec(any::<bool>(), n as usize).prop_map(Sel::MaskVar),
      ];
      s.prop_map(move |sel| Case::Select { t: t.clone(), sel })
    }).boxed();
    let seljoin = (pair_s(), pick(JOINS.to_vec()), proptest::collection::vec(0u8..32, 1..=4), proptest::collection::vec(any::<bool>(), 25), 0u8..3)
      .prop_map(|((a, b), op, ix, mask, form)| Case::SelectJoin { a, b, op, sel: match form { 0 => Sel::Row(ix[0]), 1 => Sel::Rows(ix), _ => Sel::Mask(mask) } }).boxed();
    prop_oneof![12 => join, 2 => sel, 6 => chain, 2 => sel2, 2 => seljoin].boxed()
  }
  fn rule() -> &'static str {
    "case = two table literals (1-4 columns each, 0-2 shared column names with a common kind, placed first, last or interleaved with the own \
     columns and in opposite orders on the two sides, 1-5 rows, cell values from a 3-value domain per kind so duplicates and many-to-many \
     matches are common, kinds u8/u64/i64/f32/f64/r64/string/bool) and one of the six join operators in symbol or word form; or a two-stage \
     chain (ta op1 tb) op2 tc with the intermediate result inline or through a variable, on the left or the right of op2, the third table \
     sharing columns with either operand (so holes made by op1 are join keys or passed-through cells of op2); or a row/column selection \
     (index, index vector literal or variable, mask literal or variable, exclusive/inclusive range) on a table literal or on a join result. \
     Oracle: reference relational algebra (an empty cell matches nothing), result compared as a multiset of rows over the union of the \
     columns, with column kinds (optional where the operator can leave a hole). Non-trivial = a key occurs >=2 times on one side, or a side \
     has an unmatched row, or there are 0 or 2 shared columns, or a chain with non-empty intermediate and final result, or a non-empty \
     selection on a join result; distinct key = (op, #shared, max multiplicity per side, unmatched-left, unmatched-right, form) / (op1, op2, \
     style, intermediate has holes, #shared in stage 2) / (op, selection form, rows, selected, holes)."
  }
  fn assumptions() -> Vec<String> {
    vec!["a column the operator can leave a hole in must be optional when a hole actually occurs; when no row is unmatched both `k` and `k?` are accepted".into(),
         "result row order is not constrained (multiset comparison); row selection is compared in order".into(),
         "in a chain, a hole inherited from the intermediate result in a column the second operator cannot itself leave empty may be declared with either spelling of the kind (k or k?): the statement speaks about the columns the operator makes optional".into(),
         "a chain whose expected result has no rows only demands that no row is invented; a selection that addresses a row beyond the last only demands that no table with that many rows is returned".into()]
  }
  fn describe(c: &Case) -> String { render(c).join("; ") }
  fn check(c: &Case, _cx: &Cx) -> Verdict { check(c) }
}

fn tbl_text(t: &Tbl) -> String {
  let head = t.cols.iter().map(|(n, k)| format!("{}<{}>", n, k.name())).collect::<Vec<_>>().join(" ");
  let rows = t.rows.iter().map(|r| r.iter().zip(&t.cols).map(|(v, (_, k))| k.cell(*v).0).collect::<Vec<_>>().join(" ")).collect::<Vec<_>>().join(" | ");
  format!("| {} | {} |", head, rows)
}

fn render(c: &Case) -> Vec<String> {
  match c {
    Case::Join { a, b, op, word } => vec![format!("ta := {}", tbl_text(a)), format!("tb := {}", tbl_text(b)), if *word { format!("{}(ta, tb)", op.word()) } else { format!("ta {} tb", op.sym()) }],
    Case::Select { t, sel } => vec![format!("ta := {}", tbl_text(t)), match sel {
      Sel::Row(i) => format!("ta[{}]", i),
      Sel::Rows(v) => format!("ta[[{}]]", v.iter().map(|x| x.to_string()).collect::<Vec<_>>().join(" ")),
      Sel::Mask(m) => format!("ta[[{}]]", m.iter().map(|x| x.to_string()).collect::<Vec<_>>().join(" ")),
      Sel::Col(ci) => format!("ta.{}", t.cols[*ci as usize].0),
      Sel::Range(lo, hi, incl) => format!("ta[{}{}{}]", lo, if *incl { "..=" } else { ".." }, hi),
      Sel::RowsVar(v) => format!("ix := [{}]; ta[ix]", v.iter().map(|x| x.to_string()).collect::<Vec<_>>().join(" ")),
      Sel::MaskVar(m) => format!("ix := [{}]; ta[ix]", m.iter().map(|x| x.to_string()).collect::<Vec<_>>().join(" ")),
    }].into_iter().flat_map(|l| l.split("; ").map(|x| x.to_string()).collect::<Vec<_>>()).collect(),
    Case::Chain { a, b, c, op1, op2, w1, w2, style } => {
      let j = if *w1 { format!("{}(ta, tb)", op1.word()) } else { format!("ta {} tb", op1.sym()) };
      let mut st = vec![format!("ta := {}", tbl_text(a)), format!("tb := {}", tbl_text(b)), format!("tc := {}", tbl_text(c))];
      let jx = if style & 1 == 0 { st.push(format!("tj := {}", j)); "tj".to_string() } else if *w1 { j } else { format!("({})", j) };
      let (l, r) = if style & 2 == 0 { (jx, "tc".to_string()) } else { ("tc".to_string(), jx) };
      st.push(if *w2 { format!("{}({}, {})", op2.word(), l, r) } else { format!("{} {} {}", l, op2.sym(), r) });
      st
    }
    Case::SelectJoin { a, b, op, .. } => vec![format!("ta := {}", tbl_text(a)), format!("tb := {}", tbl_text(b)), format!("tj := ta {} tb", op.sym())],
  }
}

/// reference table: names, base kinds, which columns may be optional, rows
#[derive(Clone, Debug)]
struct RT { names: Vec<String>, kinds: Vec<String>, holeable: Vec<bool>, /** columns in which the last operator itself can leave a hole */ must: Vec<bool>, rows: Vec<Vec<RVal>> }
fn rt_of(t: &Tbl) -> RT {
  RT { names: t.cols.iter().map(|c| c.0.clone()).collect(), kinds: t.cols.iter().map(|c| c.1.name().to_string()).collect(), holeable: vec![false; t.cols.len()], must: vec![false; t.cols.len()],
       rows: (0..t.rows.len()).map(|r| (0..t.cols.len()).map(|ci| cell(t, r, ci)).collect()).collect() }
}
/// relational-algebra join on all commonly named columns (an empty cell matches nothing); columns = A's, then B's own
fn join_ref(a: &RT, b: &RT, op: Join) -> RT {
  let empty = RVal::S(Sc::Empty);
  let shared: Vec<(usize, usize)> = a.names.iter().enumerate().filter_map(|(i, n)| b.names.iter().position(|m| m == n).map(|j| (i, j))).collect();
  let b_only: Vec<usize> = (0..b.names.len()).filter(|j| !shared.iter().any(|(_, sj)| sj == j)).collect();
  let matches = |ra: &Vec<RVal>, rb: &Vec<RVal>| shared.iter().all(|(i, j)| ra[*i] == rb[*j] && ra[*i] != empty);
  let semi = matches!(op, Join::Semi | Join::Anti);
  let mut rows: Vec<Vec<RVal>> = vec![];
  let mut matched_b = vec![false; b.rows.len()];
  for ra in &a.rows {
    let ms: Vec<usize> = (0..b.rows.len()).filter(|rb| matches(ra, &b.rows[*rb])).collect();
    for rb in &ms { matched_b[*rb] = true; }
    match op {
      Join::Inner | Join::Left | Join::Right | Join::Full => {
        for rb in &ms { let mut r = ra.clone(); for j in &b_only { r.push(b.rows[*rb][*j].clone()); } rows.push(r); }
        if ms.is_empty() && matches!(op, Join::Left | Join::Full) { let mut r = ra.clone(); for _ in &b_only { r.push(empty.clone()); } rows.push(r); }
      }
      Join::Semi => if !ms.is_empty() { rows.push(ra.clone()); },
      Join::Anti => if ms.is_empty() { rows.push(ra.clone()); },
    }
  }
  if matches!(op, Join::Right | Join::Full) {
    for (rb, row) in b.rows.iter().enumerate() { if !matched_b[rb] {
      let mut r: Vec<RVal> = (0..a.names.len()).map(|i| match shared.iter().find(|(si, _)| *si == i) { Some((_, j)) => row[*j].clone(), None => empty.clone() }).collect();
      for j in &b_only { r.push(row[*j].clone()); }
      rows.push(r);
    } }
  }
  let mut names = a.names.clone(); let mut kinds = a.kinds.clone();
  let mut holeable: Vec<bool> = (0..a.names.len()).map(|i| match shared.iter().find(|(si, _)| *si == i) {
    Some((_, j)) => a.holeable[i] || (!semi && b.holeable[*j]),
    None => a.holeable[i] || matches!(op, Join::Right | Join::Full) }).collect();
  let mut must: Vec<bool> = (0..a.names.len()).map(|i| !shared.iter().any(|(si, _)| *si == i) && matches!(op, Join::Right | Join::Full)).collect();
  if !semi { for j in &b_only { names.push(b.names[*j].clone()); kinds.push(b.kinds[*j].clone()); holeable.push(b.holeable[*j] || matches!(op, Join::Left | Join::Full)); must.push(matches!(op, Join::Left | Join::Full)); } }
  RT { names, kinds, holeable, must, rows }
}

/// compares an observed table with the reference table: column set, rows as a multiset, column kinds
fn cmp_table(v: &mut Verdict, text: &str, out: &Outcome, want: &RT, tag: &str, cause: &str) {
  let empty = RVal::S(Sc::Empty);
  match out {
    Outcome::Ok(RVal::Table { rows: nr, cols }) => {
      let got_names: Vec<String> = cols.iter().map(|(n, _, _)| n.clone()).collect();
      let mut gs = got_names.clone(); gs.sort(); let mut ws = want.names.clone(); ws.sort();
      if gs != ws { v.fail(format!("C18|columns|{}|{}", tag, cause), format!("`{}` has columns {:?} expected {:?}", text, got_names, want.names)); return; }
      if cols.iter().any(|(_, _, cells)| cells.len() != *nr) { v.fail(format!("C18|ragged-result|{}", tag), format!("`{}` gave {}", text, out.show())); return; }
      let idx: Vec<usize> = want.names.iter().map(|n| got_names.iter().position(|g| g == n).unwrap()).collect();
      let mut got_rows: Vec<Vec<RVal>> = (0..*nr).map(|r| idx.iter().map(|ci| cols[*ci].2[r].clone()).collect()).collect();
      let mut want_rows = want.rows.clone();
      got_rows.sort(); want_rows.sort();
      if got_rows != want_rows { v.fail(format!("C18|rows|{}|{}", tag, cause), format!("`{}` gave {} row(s) {} expected {} row(s) {}", text, nr, show_rows(&got_rows), want_rows.len(), show_rows(&want_rows))); return; }
      for (k, nm) in want.names.iter().enumerate() {
        let (_, gk, cells) = &cols[idx[k]];
        let base = &want.kinds[k];
        let has_hole = cells.iter().any(|c| *c == empty);
        // a column the operator itself can leave a hole in must be optional when it holds one; a hole inherited from an operand that was
        // itself a join result (a shared or passed-through column) is outside the statement: both spellings of the kind are accepted
        let ok = if has_hole && want.must[k] { *gk == format!("{}?", base) } else if want.holeable[k] { *gk == *base || *gk == format!("{}?", base) } else { *gk == *base };
        if !ok { v.fail(format!("C18|column-kind|{}|{}", tag, if want.holeable[k] { "holeable" } else { "fixed" }), format!("`{}`: column {} has kind {} (base {}, holes: {})", text, nm, gk, base, has_hole)); return; }
      }
    }
    Outcome::Ok(other) => v.fail(format!("C18|not-a-table|{}", tag), format!("`{}` gave {}", text, other.show())),
    other => v.fail(format!("C18|join-rejected|{}|{}|{}", tag, cause, other.class()), format!("`{}` gave {}", text, other.show())),
  }
}

/// reference value of cell (row r, column ci)
fn cell(t: &Tbl, r: usize, ci: usize) -> RVal { t.cols[ci].1.cell(t.rows[r][ci]).1 }
fn tbl_rval(t: &Tbl) -> RVal {
  RVal::Table { rows: t.rows.len(), cols: t.cols.iter().enumerate().map(|(ci, (n, k))| (n.clone(), k.name().to_string(), (0..t.rows.len()).map(|r| cell(t, r, ci)).collect())).collect() }
}

fn check_chain(c: &Case) -> Verdict {
  let Case::Chain { a, b, c: tc, op1, op2, style, .. } = c else { unreachable!() };
  let mut v = Verdict::new();
  let st = render(c);
  let mut sess = Session::new();
  for s in &st[..3] { match sess.run(s) { Outcome::Ok(_) => {} o => { v.harness(format!("table definition `{}` gave {}", s, o.show())); return v; } } }
  let snap = sess.snapshot();
  if snap.get("ta") != Some(&tbl_rval(a)) || snap.get("tb") != Some(&tbl_rval(b)) || snap.get("tc") != Some(&tbl_rval(tc)) { v.harness(format!("table literal reads back differently: {}", st[..3].join("; "))); return v; }
  let text = st.join("; ");
  let j = join_ref(&rt_of(a), &rt_of(b), *op1);
  v.label(format!("chain:{:?}>{:?}", op1, op2));
  v.label(format!("chain-style:{}", style));
  if style & 1 == 0 {
    let o = sess.run(&st[3]);
    if let Outcome::NotCode = o { v.harness(format!("`{}` parsed as prose", st[3])); return v; }
    if let Outcome::Panic(m) = &o { v.fail("C18|panic-escaped", m.clone()); return v; }
    if !o.is_ok() { v.fail(format!("C18|join-rejected|chain-stage1|{:?}|{}", op1, o.class()), format!("`{}` gave {}", st[..4].join("; "), o.show())); return v; }
    match sess.snapshot().get("tj") { Some(t) => cmp_table(&mut v, &st[..4].join("; "), &Outcome::Ok(t.clone()), &j, &format!("chain-stage1|{:?}", op1), "variable"), None => v.fail("C18|chain-stage1|undefined", format!("`{}` left tj undefined", st[..4].join("; "))) }
    if v.failed() { return v; }
  }
  let out = sess.run(&st[st.len() - 1]);
  if let Outcome::NotCode = out { v.harness(format!("`{}` parsed as prose", st[st.len() - 1])); return v; }
  if let Outcome::Panic(m) = &out { v.fail("C18|panic-escaped", m.clone()); return v; }
  let c_rt = rt_of(tc);
  let want = if style & 2 == 0 { join_ref(&j, &c_rt, *op2) } else { join_ref(&c_rt, &j, *op2) };
  let empty = RVal::S(Sc::Empty);
  let j_hole = j.rows.iter().any(|r| r.iter().any(|x| *x == empty));
  let shared2 = j.names.iter().filter(|n| c_rt.names.contains(n)).count();
  if j.rows.is_empty() { v.label("chain:empty-intermediate"); }
  if want.rows.is_empty() {
    // an empty result: only "no rows invented" is demanded (how an empty table is represented is not the property's subject)
    v.label("chain:empty-result");
    match &out { Outcome::Ok(RVal::Table { rows: nr, .. }) if *nr > 0 => v.fail(format!("C18|rows|chain|{:?}|empty-expected", op2), format!("`{}` gave {} expected no rows", text, out.show())), _ => {} }
    return v;
  }
  if j.rows.is_empty() {
    // J has no rows: the stage-2 result consists of c's rows alone; accepted or rejected, but never wrong rows
    if let Outcome::Ok(RVal::Table { .. }) = &out { cmp_table(&mut v, &text, &out, &want, &format!("chain|{:?}", op2), "empty-intermediate"); }
    return v;
  }
  v.key = Some(format!("chain|{:?}|{:?}|{}|{}|{}", op1, op2, style, j_hole, shared2.min(2)));
  cmp_table(&mut v, &text, &out, &want, &format!("chain|{:?}", op2), if j_hole { "intermediate-has-holes" } else { "general" });
  v
}

/// a selection that addresses no row (an all-false mask): however the empty result is represented, it holds no row
fn no_rows_invented(v: &mut Verdict, text: &str, out: &Outcome, form: &str) {
  if let Outcome::Ok(RVal::Table { rows: nr, .. }) = out { if *nr > 0 { v.fail(format!("C18|select-{}-empty-selection-has-rows", form), format!("`{}` selects no row but gave {}", text, out.show())); } }
}

fn check_seljoin(c: &Case) -> Verdict {
  let Case::SelectJoin { a, b, op, sel } = c else { unreachable!() };
  let mut v = Verdict::new();
  let st = render(c);
  let mut sess = Session::new();
  for s in &st[..2] { match sess.run(s) { Outcome::Ok(_) => {} o => { v.harness(format!("table definition `{}` gave {}", s, o.show())); return v; } } }
  let o = sess.run(&st[2]);
  if let Outcome::Panic(m) = &o { v.fail("C18|panic-escaped", m.clone()); return v; }
  if !o.is_ok() { v.fail(format!("C18|join-rejected|seljoin|{:?}|{}", op, o.class()), format!("`{}` gave {}", st.join("; "), o.show())); return v; }
  // the join itself is judged by the Join cases; here the observed table tj is the subject of the selection
  let Some(RVal::Table { rows: nr, cols }) = sess.snapshot().get("tj").cloned() else { v.label("seljoin:not-a-table"); return v; };
  v.label("class:select-on-join");
  if nr == 0 { v.label("seljoin:empty"); return v; }
  let rows: Vec<usize> = match sel { Sel::Row(i) => vec![*i as usize * nr >> 5], Sel::Rows(r) => r.iter().map(|x| *x as usize * nr >> 5).collect(), Sel::Mask(m) => m.iter().take(nr).enumerate().filter(|(_, f)| **f).map(|(i, _)| i).collect(), _ => vec![] };
  let (form, stmt) = match sel {
    Sel::Row(_) => ("row", format!("tj[{}]", rows[0] + 1)),
    Sel::Rows(_) => ("rows", format!("tj[[{}]]", rows.iter().map(|x| (x + 1).to_string()).collect::<Vec<_>>().join(" "))),
    Sel::Mask(m) => ("mask", format!("tj[[{}]]", m.iter().take(nr).map(|x| x.to_string()).collect::<Vec<_>>().join(" "))),
    _ => { v.discard("selection form not used on joins"); return v; } };
  let text = format!("{}; {}", st.join("; "), stmt);
  let out = sess.run(&stmt);
  if let Outcome::NotCode = out { v.harness(format!("`{}` parsed as prose", stmt)); return v; }
  if let Outcome::Panic(m) = &out { v.fail("C18|panic-escaped", m.clone()); return v; }
  if rows.is_empty() { v.label("empty-selection"); no_rows_invented(&mut v, &text, &out, form); return v; }
  let holes = cols.iter().any(|(_, _, c)| c.iter().any(|x| *x == RVal::S(Sc::Empty)));
  v.key = Some(format!("select-on-join|{:?}|{}|{}|{}|{}", op, form, nr.min(4), rows.len(), holes));
  match (&out, sel) {
    (Outcome::Ok(RVal::Record(fields)), Sel::Row(_)) => {
      // a record of the row's cells; the field kind may be the column kind with or without `?`
      let ok = fields.len() == cols.len() && fields.iter().zip(&cols).all(|((fnm, fk, fv), (cn, ck, cells))| fnm == cn && (fk == ck || format!("{}?", fk) == *ck || *fk == format!("{}?", ck)) && *fv == cells[rows[0]]);
      if !ok { v.fail("C18|select-row-wrong|on-join", format!("`{}` gave {} expected row {} of {}", text, out.show(), rows[0] + 1, RVal::Table { rows: nr, cols: cols.clone() }.show())); }
    }
    (Outcome::Ok(RVal::Table { rows: gr, cols: gc }), Sel::Rows(_) | Sel::Mask(_)) => {
      let want: Vec<(String, String, Vec<RVal>)> = cols.iter().map(|(n, k, cells)| (n.clone(), k.clone(), rows.iter().map(|r| cells[*r].clone()).collect())).collect();
      if *gr != rows.len() || *gc != want { v.fail(format!("C18|select-{}-wrong|on-join", form), format!("`{}` gave {} expected rows {:?} in order", text, out.show(), rows.iter().map(|r| r + 1).collect::<Vec<_>>())); }
    }
    (Outcome::Ok(other), _) => v.fail(format!("C18|select-{}-wrong-shape|on-join", form), format!("`{}` gave {}", text, other.show())),
    (other, _) => { if matches!(sel, Sel::Mask(_)) && nr == 1 || matches!(sel, Sel::Rows(_)) && rows.len() == 1 { v.fail(format!("C18|single-element-index-rejected|{}", form), format!("`{}` gave {}", text, other.show())); } else { v.fail(format!("C18|select-{}-rejected|on-join|{}", form, other.class()), format!("`{}` gave {}", text, other.show())); } }
  }
  v
}

fn check(c: &Case) -> Verdict {
  match c { Case::Chain { .. } => return check_chain(c), Case::SelectJoin { .. } => return check_seljoin(c), _ => {} }
  let mut v = Verdict::new();
  let st = render(c);
  let mut sess = Session::new();
  let n = st.len();
  for s in &st[..n - 1] { match sess.run(s) { Outcome::Ok(_) => {} o => { v.harness(format!("table definition `{}` gave {}", s, o.show())); return v; } } }
  // tables read back exactly
  let snap = sess.snapshot();
  match c {
    Case::Join { a, b, .. } => { if snap.get("ta") != Some(&tbl_rval(a)) || snap.get("tb") != Some(&tbl_rval(b)) { v.harness(format!("table literal reads back differently: {:?}", snap.get("ta").map(|x| x.show()))); return v; } }
    Case::Select { t, .. } => { if snap.get("ta") != Some(&tbl_rval(t)) { v.harness(format!("table literal reads back differently: {:?}", snap.get("ta").map(|x| x.show()))); return v; } }
    _ => unreachable!(),
  }
  let out = sess.run(&st[n - 1]);
  if let Outcome::NotCode = out { v.harness(format!("`{}` parsed as prose", st[n - 1])); return v; }
  if let Outcome::Panic(m) = &out { v.fail("C18|panic-escaped", m.clone()); return v; }
  let text = st.join("; ");
  match c {
    Case::Select { t, sel } => {
      v.label("class:select");
      let rows: Vec<usize> = match sel { Sel::Row(i) => vec![*i as usize - 1], Sel::Rows(r) | Sel::RowsVar(r) => r.iter().map(|x| *x as usize - 1).collect(), Sel::Mask(m) | Sel::MaskVar(m) => m.iter().enumerate().filter(|(_, f)| **f).map(|(i, _)| i).collect(), Sel::Col(_) => vec![],
        Sel::Range(lo, hi, incl) => (*lo as usize..(*hi as usize + *incl as usize)).map(|x| x - 1).collect() };
      let form = match sel { Sel::Row(_) => "row", Sel::Rows(_) => "rows", Sel::Mask(_) => "mask", Sel::Col(_) => "col", Sel::Range(_, _, true) => "range-incl", Sel::Range(..) => "range-excl", Sel::RowsVar(_) => "rows-var", Sel::MaskVar(_) => "mask-var" };
      if rows.iter().any(|r| *r >= t.rows.len()) {
        // a range that runs past the last row addresses rows that do not exist: a value holding such a row would be invented
        v.label("select:out-of-range");
        if let Outcome::Ok(RVal::Table { rows: nr, .. }) = &out { if *nr >= rows.len() { v.fail(format!("C18|select-{}-out-of-range-accepted", form), format!("`{}` gave {}", text, out.show())); } }
        return v;
      }
      v.key = Some(format!("select|{}|{}x{}|{}", form, t.rows.len(), t.cols.len(), rows.len()));
      match (&out, sel) {
        (Outcome::Ok(RVal::Record(fields)), Sel::Row(i)) => {
          let want: Vec<(String, String, RVal)> = t.cols.iter().enumerate().map(|(ci, (nm, k))| (nm.clone(), k.name().to_string(), cell(t, *i as usize - 1, ci))).collect();
          if *fields != want { v.fail("C18|select-row-wrong", format!("`{}` gave {} expected row {}", text, out.show(), i)); }
        }
        (Outcome::Ok(RVal::Table { rows: nr, cols }), Sel::Rows(_) | Sel::Mask(_) | Sel::Range(..) | Sel::RowsVar(_) | Sel::MaskVar(_)) => {
          if rows.is_empty() { v.label("empty-selection"); no_rows_invented(&mut v, &text, &out, form); return v; }
          let want: Vec<(String, String, Vec<RVal>)> = t.cols.iter().enumerate().map(|(ci, (nm, k))| (nm.clone(), k.name().to_string(), rows.iter().map(|r| cell(t, *r, ci)).collect())).collect();
          if *nr != rows.len() || *cols != want { v.fail(format!("C18|select-{}-wrong", form), format!("`{}` gave {} expected rows {:?} in order", text, out.show(), rows.iter().map(|r| r + 1).collect::<Vec<_>>())); }
        }
        (Outcome::Ok(val), Sel::Col(ci)) => {
          let want: Vec<RVal> = (0..t.rows.len()).map(|r| cell(t, r, *ci as usize)).collect();
          if val.elems() != want { v.fail("C18|select-column-wrong", format!("`{}` gave {} expected {:?}", text, val.show(), want.iter().map(|x| x.show()).collect::<Vec<_>>())); }
        }
        (Outcome::Ok(other), _) => { if !(rows.is_empty() && !matches!(sel, Sel::Col(_))) { v.fail(format!("C18|select-{}-wrong-shape", form), format!("`{}` gave {}", text, other.show())); } }
        (other, _) => { if rows.is_empty() && !matches!(sel, Sel::Col(_)) { v.label("empty-selection"); } else if matches!(sel, Sel::Mask(m) | Sel::MaskVar(m) if m.len() == 1) || (rows.len() == 1 && matches!(sel, Sel::Range(..))) { v.fail(format!("C18|single-element-index-rejected|{}", form), format!("`{}` gave {}", text, other.show())); } else { v.fail(format!("C18|select-{}-rejected|{}", form, other.class()), format!("`{}` gave {}", text, other.show())); } }
      }
    }
    Case::Join { a, b, op, word } => {
      v.label(format!("op:{:?}", op));
      v.label(if *word { "form:word" } else { "form:symbol" });
      // shared columns: names present on both sides
      let shared: Vec<(usize, usize)> = a.cols.iter().enumerate().filter_map(|(i, (n, _))| b.cols.iter().position(|(m, _)| m == n).map(|j| (i, j))).collect();
      let b_only: Vec<usize> = (0..b.cols.len()).filter(|j| !shared.iter().any(|(_, sj)| sj == j)).collect();
      let matches = |ra: usize, rb: usize| shared.iter().all(|(i, j)| cell(a, ra, *i) == cell(b, rb, *j));
      let empty = RVal::S(Sc::Empty);
      // expected rows: vectors over [A cols..., B-only cols...]
      let mut rows: Vec<Vec<RVal>> = vec![];
      let arow = |ra: usize| -> Vec<RVal> { (0..a.cols.len()).map(|i| cell(a, ra, i)).collect() };
      let mut matched_b = vec![false; b.rows.len()];
      let mut unmatched_left = false;
      let mut maxmult = 0;
      for ra in 0..a.rows.len() {
        let ms: Vec<usize> = (0..b.rows.len()).filter(|rb| matches(ra, *rb)).collect();
        maxmult = maxmult.max(ms.len());
        for rb in &ms { matched_b[*rb] = true; }
        if ms.is_empty() { unmatched_left = true; }
        match op {
          Join::Inner | Join::Left | Join::Right | Join::Full => {
            for rb in &ms { let mut r = arow(ra); for j in &b_only { r.push(cell(b, *rb, *j)); } rows.push(r); }
            if ms.is_empty() && matches!(op, Join::Left | Join::Full) { let mut r = arow(ra); for _ in &b_only { r.push(empty.clone()); } rows.push(r); }
          }
          Join::Semi => if !ms.is_empty() { rows.push(arow(ra)); },
          Join::Anti => if ms.is_empty() { rows.push(arow(ra)); },
        }
      }
      let unmatched_right = matched_b.iter().any(|m| !m);
      if matches!(op, Join::Right | Join::Full) {
        for rb in 0..b.rows.len() { if !matched_b[rb] {
          // A columns: shared ones take B's value, A-only ones are empty
          let mut r: Vec<RVal> = (0..a.cols.len()).map(|i| match shared.iter().find(|(si, _)| *si == i) { Some((_, j)) => cell(b, rb, *j), None => empty.clone() }).collect();
          for j in &b_only { r.push(cell(b, rb, *j)); }
          rows.push(r);
        } }
      }
      let bmult = (0..b.rows.len()).map(|rb| (0..a.rows.len()).filter(|ra| matches(*ra, rb)).count()).max().unwrap_or(0);
      let semi = matches!(op, Join::Semi | Join::Anti);
      let names: Vec<String> = a.cols.iter().map(|(n, _)| n.clone()).chain(if semi { vec![] } else { b_only.iter().map(|j| b.cols[*j].0.clone()).collect::<Vec<_>>() }).collect();
      let kinds: Vec<String> = a.cols.iter().map(|(_, k)| k.name().to_string()).chain(if semi { vec![] } else { b_only.iter().map(|j| b.cols[*j].1.name().to_string()).collect::<Vec<_>>() }).collect();
      if semi { for r in rows.iter_mut() { r.truncate(a.cols.len()); } }
      let nontrivial = maxmult >= 2 || bmult >= 2 || unmatched_left || unmatched_right || shared.len() != 1;
      if nontrivial { v.key = Some(format!("{:?}|{}|{}|{}|{}|{}|{}", op, shared.len(), maxmult.min(3), bmult.min(3), unmatched_left, unmatched_right, word)); }
      let cause = if !semi && b_only.is_empty() { "rhs-has-no-own-column" } else if shared.is_empty() { "no-shared-column" } else { "general" };
      match &out {
        Outcome::Ok(RVal::Table { rows: nr, cols }) => {
          // column set
          let got_names: Vec<String> = cols.iter().map(|(n, _, _)| n.clone()).collect();
          let mut gs = got_names.clone(); gs.sort(); let mut ws = names.clone(); ws.sort();
          if gs != ws { v.fail(format!("C18|columns|{:?}|{}", op, cause), format!("`{}` has columns {:?} expected {:?}", text, got_names, names)); return v; }
          // rows as multiset, in the expected column order
          let idx: Vec<usize> = names.iter().map(|n| got_names.iter().position(|g| g == n).unwrap()).collect();
          let mut got_rows: Vec<Vec<RVal>> = (0..*nr).map(|r| idx.iter().map(|ci| cols[*ci].2.get(r).cloned().unwrap_or(RVal::Other("missing".into()))).collect()).collect();
          let mut want_rows = rows.clone();
          got_rows.sort(); want_rows.sort();
          if cols.iter().any(|(_, _, cells)| cells.len() != *nr) { v.fail(format!("C18|ragged-result|{:?}", op), format!("`{}` gave {}", text, out.show())); return v; }
          if got_rows != want_rows {
            v.fail(format!("C18|rows|{:?}|{}", op, cause), format!("`{}` gave {} row(s) {} expected {} row(s) {}", text, nr, show_rows(&got_rows), want_rows.len(), show_rows(&want_rows)));
            return v;
          }
          // kinds
          for (k, nm) in names.iter().enumerate() {
            let (_, gk, cells) = &cols[idx[k]];
            let base = &kinds[k];
            let has_hole = cells.iter().any(|c| *c == empty);
            let is_a_only = k < a.cols.len() && !shared.iter().any(|(si, _)| *si == k);
            let is_b_only = k >= a.cols.len();
            let holeable = match op { Join::Left => is_b_only, Join::Right => is_a_only, Join::Full => is_a_only || is_b_only, _ => false };
            let ok = if has_hole { *gk == format!("{}?", base) } else if holeable { *gk == *base || *gk == format!("{}?", base) } else { *gk == *base };
            if !ok { v.fail(format!("C18|column-kind|{:?}|{}", op, if holeable { "holeable" } else { "fixed" }), format!("`{}`: column {} has kind {} (base {}, holes: {})", text, nm, gk, base, has_hole)); return v; }
          }
        }
        Outcome::Ok(other) => v.fail(format!("C18|not-a-table|{:?}", op), format!("`{}` gave {}", text, other.show())),
        other => v.fail(format!("C18|join-rejected|{:?}|{}|{}", op, cause, other.class()), format!("`{}` gave {}", text, other.show())),
      }
    }
    _ => unreachable!(),
  }
  v
}

fn show_rows(r: &[Vec<RVal>]) -> String { format!("[{}]", r.iter().map(|row| format!("({})", row.iter().map(|c| c.show()).collect::<Vec<_>>().join(","))).collect::<Vec<_>>().join(" ")) }
