//! C18 Table joins are the relational-algebra joins on the shared columns.

use crate::engine::*;
use crate::gen::*;
use crate::mech::*;
use crate::rval::*;
use proptest::prelude::*;
use serde::{Deserialize, Serialize};

pub struct C18;

#[derive(Clone, Copy, Debug, PartialEq, Eq, Hash, Serialize, Deserialize)]
pub enum CK { U8, U64, F64, Str, Bool }
impl CK {
  fn name(&self) -> &'static str { match self { CK::U8 => "u8", CK::U64 => "u64", CK::F64 => "f64", CK::Str => "string", CK::Bool => "bool" } }
  /// cell text in a table literal and reference value for key index v (0..3)
  fn cell(&self, v: u8) -> (String, RVal) {
    match self {
      CK::U8 => (format!("{}", v + 1), RVal::S(Sc::U(8, v as u128 + 1))),
      CK::U64 => (format!("{}", (v as u64 + 1) * 10), RVal::S(Sc::U(64, (v as u128 + 1) * 10))),
      CK::F64 => (format!("{}.5", v), RVal::S(f64b(v as f64 + 0.5))),
      CK::Str => (format!("\"{}\"", ["x", "y", "zz"][v as usize % 3]), RVal::S(Sc::Str(["x", "y", "zz"][v as usize % 3].to_string()))),
      CK::Bool => (format!("{}", v % 2 == 0), RVal::S(Sc::Bool(v % 2 == 0))),
    }
  }
}

#[derive(Clone, Copy, Debug, PartialEq, Eq, Hash, Serialize, Deserialize)]
pub enum Join { Inner, Left, Right, Full, Semi, Anti }
const JOINS: [Join; 6] = [Join::Inner, Join::Left, Join::Right, Join::Full, Join::Semi, Join::Anti];
impl Join {
  fn sym(&self) -> &'static str { match self { Join::Inner => "⋈", Join::Left => "⟕", Join::Right => "⟖", Join::Full => "⟗", Join::Semi => "⋉", Join::Anti => "▷" } }
  fn word(&self) -> &'static str { match self { Join::Inner => "table/join", Join::Left => "table/left-outer-join", Join::Right => "table/right-outer-join", Join::Full => "table/full-outer-join", Join::Semi => "table/left-semi-join", Join::Anti => "table/left-anti-join" } }
}

#[derive(Clone, Debug, Serialize, Deserialize)]
pub struct Tbl { pub cols: Vec<(String, CK)>, pub rows: Vec<Vec<u8>> }

#[derive(Clone, Debug, Serialize, Deserialize)]
pub enum Sel { Row(u8), Rows(Vec<u8>), Mask(Vec<bool>), Col(u8) }

#[derive(Clone, Debug, Serialize, Deserialize)]
pub enum Case {
  Join { a: Tbl, b: Tbl, op: Join, word: bool },
  Select { t: Tbl, sel: Sel },
}

fn ck_s() -> BoxedStrategy<CK> { pick(vec![CK::U8, CK::U64, CK::F64, CK::Str, CK::Bool]) }

fn pair_s() -> BoxedStrategy<(Tbl, Tbl)> {
  // shared columns (0-2) with common kinds, then own columns (A: 0-2, B: 0-2), at least one column each, at most 3
  (proptest::collection::vec(ck_s(), 0..=2), proptest::collection::vec(ck_s(), 0..=2), proptest::collection::vec(ck_s(), 0..=2), 1usize..=5, 1usize..=5, any::<bool>())
    .prop_flat_map(|(shared, owna, ownb, ra, rb, shared_last)| {
      let mut ca: Vec<(String, CK)> = vec![]; let mut cb: Vec<(String, CK)> = vec![];
      let sh: Vec<(String, CK)> = shared.iter().enumerate().map(|(i, k)| (["id", "key"][i].to_string(), *k)).collect();
      let oa: Vec<(String, CK)> = owna.iter().enumerate().map(|(i, k)| (["xa", "ya"][i].to_string(), *k)).collect();
      let ob: Vec<(String, CK)> = ownb.iter().enumerate().map(|(i, k)| (["xb", "yb"][i].to_string(), *k)).collect();
      if shared_last { ca.extend(oa.clone()); ca.extend(sh.clone()); cb.extend(sh.clone()); cb.extend(ob.clone()); } else { ca.extend(sh.clone()); ca.extend(oa.clone()); cb.extend(ob.clone()); cb.extend(sh.clone()); }
      if ca.is_empty() { ca.push(("xa".into(), CK::U64)); }
      if cb.is_empty() { cb.push(("xb".into(), CK::U64)); }
      ca.truncate(3); cb.truncate(3);
      let (na, nb) = (ca.len(), cb.len());
      (proptest::collection::vec(proptest::collection::vec(0u8..3, na), ra), proptest::collection::vec(proptest::collection::vec(0u8..3, nb), rb))
        .prop_map(move |(rowsa, rowsb)| (Tbl { cols: ca.clone(), rows: rowsa }, Tbl { cols: cb.clone(), rows: rowsb }))
    }).boxed()
}

impl Prop for C18 {
  type Case = Case;
  const ID: &'static str = "C18";
  fn budget(t: Tier) -> u32 { t.pick(6_000, 80_000) }
  fn strategy(_t: Tier, _k: &Known) -> BoxedStrategy<Case> {
    let join = (pair_s(), pick(JOINS.to_vec()), proptest::bool::weighted(0.3)).prop_map(|((a, b), op, word)| Case::Join { a, b, op, word }).boxed();
    let sel = pair_s().prop_flat_map(|(t, _)| {
      let n = t.rows.len() as u8; let nc = t.cols.len() as u8;
      let s = prop_oneof![
        (1..=n).prop_map(Sel::Row),
        proptest::collection::vec(1..=n, 2..=4).prop_map(Sel::Rows),
        proptest::collection::vec(any::<bool>(), n as usize).prop_map(Sel::Mask),
        (0..nc).prop_map(Sel::Col),
      ];
      s.prop_map(move |sel| Case::Select { t: t.clone(), sel })
    }).boxed();
    prop_oneof![6 => join, 1 => sel].boxed()
  }
  fn rule() -> &'static str {
    "case = two table literals (1-3 columns each, 0-2 shared column names with a common kind, placed first or last, 1-5 rows, cell values \
     from a 3-value domain per kind so duplicates and many-to-many matches are common, kinds u8/u64/f64/string/bool) and one of the six \
     join operators in symbol or word form; or a row/column selection on one table. Oracle: reference relational algebra, result compared \
     as a multiset of rows over the union of the columns, with column kinds (optional where the operator can leave a hole). Non-trivial = \
     a key occurs ≥2 times on one side, or a side has an unmatched row, or there are 0 or 2 shared columns; distinct key = (op, #shared, \
     max multiplicity per side, unmatched-left, unmatched-right, form)."
  }
  fn assumptions() -> Vec<String> {
    vec!["a column the operator can leave a hole in must be optional when a hole actually occurs; when no row is unmatched both `k` and `k?` are accepted".into(),
         "result row order is not constrained (multiset comparison); row selection is compared in order".into()]
  }
  fn describe(c: &Case) -> String { render(c).join("; ") }
  fn check(c: &Case, _cx: &Cx) -> Verdict { check(c) }
}

fn tbl_text(t: &Tbl) -> String {
  let head = t.cols.iter().map(|(n, k)| format!("{}<{}>", n, k.name())).collect::<Vec<_>>().join(" ");
  let rows = t.rows.iter().map(|r| r.iter().zip(&t.cols).map(|(v, (_, k))| k.cell(*v).0).collect::<Vec<_>>().join(" ")).collect::<Vec<_>>().join(" | ");
  format!("| {} | {} |", head, rows)
}

fn render(c: &Case) -> Vec<String> {
  match c {
    Case::Join { a, b, op, word } => vec![format!("ta := {}", tbl_text(a)), format!("tb := {}", tbl_text(b)), if *word { format!("{}(ta, tb)", op.word()) } else { format!("ta {} tb", op.sym()) }],
    Case::Select { t, sel } => vec![format!("ta := {}", tbl_text(t)), match sel {
      Sel::Row(i) => format!("ta[{}]", i),
      Sel::Rows(v) => format!("ta[[{}]]", v.iter().map(|x| x.to_string()).collect::<Vec<_>>().join(" ")),
      Sel::Mask(m) => format!("ta[[{}]]", m.iter().map(|x| x.to_string()).collect::<Vec<_>>().join(" ")),
      Sel::Col(ci) => format!("ta.{}", t.cols[*ci as usize].0),
    }],
  }
}

/// reference value of cell (row r, column ci)
fn cell(t: &Tbl, r: usize, ci: usize) -> RVal { t.cols[ci].1.cell(t.rows[r][ci]).1 }
fn tbl_rval(t: &Tbl) -> RVal {
  RVal::Table { rows: t.rows.len(), cols: t.cols.iter().enumerate().map(|(ci, (n, k))| (n.clone(), k.name().to_string(), (0..t.rows.len()).map(|r| cell(t, r, ci)).collect())).collect() }
}

fn check(c: &Case) -> Verdict {
  let mut v = Verdict::new();
  let st = render(c);
  let mut sess = Session::new();
  let n = st.len();
  for s in &st[..n - 1] { match sess.run(s) { Outcome::Ok(_) => {} o => { v.harness(format!("table definition `{}` gave {}", s, o.show())); return v; } } }
  // tables read back exactly
  let snap = sess.snapshot();
  match c {
    Case::Join { a, b, .. } => { if snap.get("ta") != Some(&tbl_rval(a)) || snap.get("tb") != Some(&tbl_rval(b)) { v.harness(format!("table literal reads back differently: {:?}", snap.get("ta").map(|x| x.show()))); return v; } }
    Case::Select { t, .. } => { if snap.get("ta") != Some(&tbl_rval(t)) { v.harness(format!("table literal reads back differently: {:?}", snap.get("ta").map(|x| x.show()))); return v; } }
  }
  let out = sess.run(&st[n - 1]);
  if let Outcome::NotCode = out { v.harness(format!("`{}` parsed as prose", st[n - 1])); return v; }
  if let Outcome::Panic(m) = &out { v.fail("C18|panic-escaped", m.clone()); return v; }
  let text = st.join("; ");
  match c {
    Case::Select { t, sel } => {
      v.label("class:select");
      let rows: Vec<usize> = match sel { Sel::Row(i) => vec![*i as usize - 1], Sel::Rows(r) => r.iter().map(|x| *x as usize - 1).collect(), Sel::Mask(m) => m.iter().enumerate().filter(|(_, f)| **f).map(|(i, _)| i).collect(), Sel::Col(_) => vec![] };
      let form = match sel { Sel::Row(_) => "row", Sel::Rows(_) => "rows", Sel::Mask(_) => "mask", Sel::Col(_) => "col" };
      v.key = Some(format!("select|{}|{}x{}|{}", form, t.rows.len(), t.cols.len(), rows.len()));
      match (&out, sel) {
        (Outcome::Ok(RVal::Record(fields)), Sel::Row(i)) => {
          let want: Vec<(String, String, RVal)> = t.cols.iter().enumerate().map(|(ci, (nm, k))| (nm.clone(), k.name().to_string(), cell(t, *i as usize - 1, ci))).collect();
          if *fields != want { v.fail("C18|select-row-wrong", format!("`{}` gave {} expected row {}", text, out.show(), i)); }
        }
        (Outcome::Ok(RVal::Table { rows: nr, cols }), Sel::Rows(_) | Sel::Mask(_)) => {
          if rows.is_empty() { v.label("empty-selection"); return v; }
          let want: Vec<(String, String, Vec<RVal>)> = t.cols.iter().enumerate().map(|(ci, (nm, k))| (nm.clone(), k.name().to_string(), rows.iter().map(|r| cell(t, *r, ci)).collect())).collect();
          if *nr != rows.len() || *cols != want { v.fail(format!("C18|select-{}-wrong", form), format!("`{}` gave {} expected rows {:?} in order", text, out.show(), rows.iter().map(|r| r + 1).collect::<Vec<_>>())); }
        }
        (Outcome::Ok(val), Sel::Col(ci)) => {
          let want: Vec<RVal> = (0..t.rows.len()).map(|r| cell(t, r, *ci as usize)).collect();
          if val.elems() != want { v.fail("C18|select-column-wrong", format!("`{}` gave {} expected {:?}", text, val.show(), want.iter().map(|x| x.show()).collect::<Vec<_>>())); }
        }
        (Outcome::Ok(other), _) => { if !(rows.is_empty() && !matches!(sel, Sel::Col(_))) { v.fail(format!("C18|select-{}-wrong-shape", form), format!("`{}` gave {}", text, other.show())); } }
        (other, _) => { if rows.is_empty() && !matches!(sel, Sel::Col(_)) { v.label("empty-selection"); } else if matches!(sel, Sel::Mask(m) if m.len() == 1) { v.fail(format!("C18|single-element-index-rejected|{}", form), format!("`{}` gave {}", text, other.show())); } else { v.fail(format!("C18|select-{}-rejected|{}", form, other.class()), format!("`{}` gave {}", text, other.show())); } }
      }
    }
    Case::Join { a, b, op, word } => {
      v.label(format!("op:{:?}", op));
      v.label(if *word { "form:word" } else { "form:symbol" });
      // shared columns: names present on both sides
      let shared: Vec<(usize, usize)> = a.cols.iter().enumerate().filter_map(|(i, (n, _))| b.cols.iter().position(|(m, _)| m == n).map(|j| (i, j))).collect();
      let b_only: Vec<usize> = (0..b.cols.len()).filter(|j| !shared.iter().any(|(_, sj)| sj == j)).collect();
      let matches = |ra: usize, rb: usize| shared.iter().all(|(i, j)| cell(a, ra, *i) == cell(b, rb, *j));
      let empty = RVal::S(Sc::Empty);
      // expected rows: vectors over [A cols..., B-only cols...]
      let mut rows: Vec<Vec<RVal>> = vec![];
      let arow = |ra: usize| -> Vec<RVal> { (0..a.cols.len()).map(|i| cell(a, ra, i)).collect() };
      let mut matched_b = vec![false; b.rows.len()];
      let mut unmatched_left = false;
      let mut maxmult = 0;
      for ra in 0..a.rows.len() {
        let ms: Vec<usize> = (0..b.rows.len()).filter(|rb| matches(ra, *rb)).collect();
        maxmult = maxmult.max(ms.len());
        for rb in &ms { matched_b[*rb] = true; }
        if ms.is_empty() { unmatched_left = true; }
        match op {
          Join::Inner | Join::Left | Join::Right | Join::Full => {
            for rb in &ms { let mut r = arow(ra); for j in &b_only { r.push(cell(b, *rb, *j)); } rows.push(r); }
            if ms.is_empty() && matches!(op, Join::Left | Join::Full) { let mut r = arow(ra); for _ in &b_only { r.push(empty.clone()); } rows.push(r); }
          }
          Join::Semi => if !ms.is_empty() { rows.push(arow(ra)); },
          Join::Anti => if ms.is_empty() { rows.push(arow(ra)); },
        }
      }
      let unmatched_right = matched_b.iter().any(|m| !m);
      if matches!(op, Join::Right | Join::Full) {
        for rb in 0..b.rows.len() { if !matched_b[rb] {
          // A columns: shared ones take B's value, A-only ones are empty
          let mut r: Vec<RVal> = (0..a.cols.len()).map(|i| match shared.iter().find(|(si, _)| *si == i) { Some((_, j)) => cell(b, rb, *j), None => empty.clone() }).collect();
          for j in &b_only { r.push(cell(b, rb, *j)); }
          rows.push(r);
        } }
      }
      let bmult = (0..b.rows.len()).map(|rb| (0..a.rows.len()).filter(|ra| matches(*ra, rb)).count()).max().unwrap_or(0);
      let semi = matches!(op, Join::Semi | Join::Anti);
      let names: Vec<String> = a.cols.iter().map(|(n, _)| n.clone()).chain(if semi { vec![] } else { b_only.iter().map(|j| b.cols[*j].0.clone()).collect::<Vec<_>>() }).collect();
      let kinds: Vec<String> = a.cols.iter().map(|(_, k)| k.name().to_string()).chain(if semi { vec![] } else { b_only.iter().map(|j| b.cols[*j].1.name().to_string()).collect::<Vec<_>>() }).collect();
      if semi { for r in rows.iter_mut() { r.truncate(a.cols.len()); } }
      let nontrivial = maxmult >= 2 || bmult >= 2 || unmatched_left || unmatched_right || shared.len() != 1;
      if nontrivial { v.key = Some(format!("{:?}|{}|{}|{}|{}|{}|{}", op, shared.len(), maxmult.min(3), bmult.min(3), unmatched_left, unmatched_right, word)); }
      let cause = if !semi && b_only.is_empty() { "rhs-has-no-own-column" } else if shared.is_empty() { "no-shared-column" } else { "general" };
      match &out {
        Outcome::Ok(RVal::Table { rows: nr, cols }) => {
          // column set
          let got_names: Vec<String> = cols.iter().map(|(n, _, _)| n.clone()).collect();
          let mut gs = got_names.clone(); gs.sort(); let mut ws = names.clone(); ws.sort();
          if gs != ws { v.fail(format!("C18|columns|{:?}|{}", op, cause), format!("`{}` has columns {:?} expected {:?}", text, got_names, names)); return v; }
          // rows as multiset, in the expected column order
          let idx: Vec<usize> = names.iter().map(|n| got_names.iter().position(|g| g == n).unwrap()).collect();
          let mut got_rows: Vec<Vec<RVal>> = (0..*nr).map(|r| idx.iter().map(|ci| cols[*ci].2.get(r).cloned().unwrap_or(RVal::Other("missing".into()))).collect()).collect();
          let mut want_rows = rows.clone();
          got_rows.sort(); want_rows.sort();
          if cols.iter().any(|(_, _, cells)| cells.len() != *nr) { v.fail(format!("C18|ragged-result|{:?}", op), format!("`{}` gave {}", text, out.show())); return v; }
          if got_rows != want_rows {
            v.fail(format!("C18|rows|{:?}|{}", op, cause), format!("`{}` gave {} row(s) {} expected {} row(s) {}", text, nr, show_rows(&got_rows), want_rows.len(), show_rows(&want_rows)));
            return v;
          }
          // kinds
          for (k, nm) in names.iter().enumerate() {
            let (_, gk, cells) = &cols[idx[k]];
            let base = &kinds[k];
            let has_hole = cells.iter().any(|c| *c == empty);
            let is_a_only = k < a.cols.len() && !shared.iter().any(|(si, _)| *si == k);
            let is_b_only = k >= a.cols.len();
            let holeable = match op { Join::Left => is_b_only, Join::Right => is_a_only, Join::Full => is_a_only || is_b_only, _ => false };
            let ok = if has_hole { *gk == format!("{}?", base) } else if holeable { *gk == *base || *gk == format!("{}?", base) } else { *gk == *base };
            if !ok { v.fail(format!("C18|column-kind|{:?}|{}", op, if holeable { "holeable" } else { "fixed" }), format!("`{}`: column {} has kind {} (base {}, holes: {})", text, nm, gk, base, has_hole)); return v; }
          }
        }
        Outcome::Ok(other) => v.fail(format!("C18|not-a-table|{:?}", op), format!("`{}` gave {}", text, other.show())),
        other => v.fail(format!("C18|join-rejected|{:?}|{}|{}", op, cause, other.class()), format!("`{}` gave {}", text, other.show())),
      }
    }
  }
  v
}

fn show_rows(r: &[Vec<RVal>]) -> String { format!("[{}]", r.iter().map(|row| format!("({})", row.iter().map(|c| c.show()).collect::<Vec<_>>().join(","))).collect::<Vec<_>>().join(" ")) }
