//! C19 Re-evaluation is deterministic, and a no-op for programs without assignments.

use crate::engine::*;
use crate::mech::*;
use crate::progs::{self, Opts, Program};
use crate::rval::*;
use proptest::prelude::*;
use serde::{Deserialize, Serialize};
use std::panic::{catch_unwind, AssertUnwindSafe};

pub struct C19;

#[derive(Clone, Debug, Serialize, Deserialize)]
pub struct Case { pub choices: Vec<u32>, pub mutate: bool, pub n: u8,
  /// operator / function zoo: (template index, operand variant) — a one-operator assignment-free program; `choices` is ignored
  #[serde(default)] pub zoo: Option<(u16, u32)> }

pub fn choices_s(max: usize) -> BoxedStrategy<Vec<u32>> { proptest::collection::vec(0u32..100_000, 6..=max).boxed() }

impl Prop for C19 {
  type Case = Case;
  const ID: &'static str = "C19";
  fn budget(t: Tier) -> u32 { t.pick(4_000, 60_000) }
  fn strategy(t: Tier, _k: &Known) -> BoxedStrategy<Case> {
    let maxn = t.pick(6u8, 40u8);
    let prog = (choices_s(90), any::<bool>(), 0..=maxn).prop_map(|(choices, mutate, n)| Case { choices, mutate, n, zoo: None }).boxed();
    let zoo = (0..ZOO.len() as u16, any::<u32>(), 1..=maxn).prop_map(|(i, a, n)| Case { choices: vec![], mutate: false, n, zoo: Some((i, a)) }).boxed();
    prop_oneof![4 => prog, 1 => zoo].boxed()
  }
  fn fixed_cases(_t: Tier) -> Vec<Case> {
    // every template of the zoo, three operand variants, two step counts
    let mut out = vec![];
    for i in 0..ZOO.len() as u16 { for a in [0u32, 1, 5] { for n in [1u8, 3] { out.push(Case { choices: vec![], mutate: false, n, zoo: Some((i, a)) }); } } }
    out
  }
  fn rule() -> &'static str {
    "case = a program from the shared typed generator (defines of scalars/strings/bools/matrices of several kinds, arithmetic, \
     comparison, logic, unary, ranges, indexing, stdlib calls incl. reductions, sets, tables, tuples, records, user functions, \
     comprehensions; with or without assignment / op-assignment / indexed assignment) and a step count n. Three interpreters evaluate it: \
     I1 then step(0,n); I2 then n x step(0,1); I3 on another thread (different hash seeds) then step(0,n). Non-trivial = plan has ≥3 steps \
     of ≥2 distinct kinds and n ≥ 2; distinct key = (sorted plan step names, n class, mutating?)."
  }
  fn assumptions() -> Vec<String> { vec!["programs the interpreter rejects are discarded and counted".into(), "`ans` is excluded from snapshots".into()] }
  fn describe(c: &Case) -> String { let p = program(c); format!("[steps {}] {}", c.n, p.lines.join("; ")) }
  fn check(c: &Case, _cx: &Cx) -> Verdict { check(c) }
}

pub fn program(c: &Case) -> Program {
  if let Some((i, a)) = c.zoo { return zoo_program(i, a); }
  progs::build(&c.choices, Opts { allow_mutation: c.mutate, allow_noncore: true, max_stmts: 12, trailing_other: false })
}

/// one-operator programs: every operator family and stdlib function the documentation lists, each on operands for which re-evaluating
/// the step is not a fixed point of an accidental accumulation (`$…` placeholders are filled from the operand variant)
pub const ZOO: &[&str] = &[
  "x := $A + $B", "x := $A - $B", "x := $A * $B", "x := $A / $B", "x := $A ^ $s", "x := $A % $s", "x := $A ** $B", "x := $A \\ $v", "x := $r · $r2", "x := $A'", "x := -$A", "x := $A + $s", "x := $s - $A", "x := $A * $w", "x := $w + $A", "x := $v + $A",
  "x := $A > $B", "x := $A <= $B", "x := $A == $B", "x := $A != $s", "x := ($A > $s) && ($B > $s)", "x := ($A > $s) || ($B > $s)", "x := ($A > $s) ⊕ ($B > $s)", "x := !($A > $s)",
  "x := $s + $t", "x := $s - $t", "x := $s * $t", "x := $s / $t", "x := $s ^ 2", "x := $s % $t", "x := -$s", "x := $s > $t", "x := $i + $j", "x := $i * $j", "x := $i - 1<u8>", "x := $q + $q2", "x := $q * $q2", "x := $c + $c2", "x := $c * $c2",
  "x := math/sin($A)", "x := math/cos($s)", "x := math/tan($s)", "x := math/asin(0.5)", "x := math/acos(0.5)", "x := math/atan($s)", "x := math/atan2($s, $t)", "x := math/sinh($s)", "x := math/cosh($s)", "x := math/tanh($A)", "x := math/sqrt($A)", "x := math/log($s)", "x := math/abs(-$A)", "x := math/floor($A / 2)", "x := math/ceil($A / 2)", "x := math/round($s / 3)", "x := math/trunc($s / 3)",
  "x := stats/sum/row($A)", "x := stats/sum/column($A)", "x := stats/sum/row($v)", "x := stats/sum/column($r)", "x := matrix/transpose($A)", "x := compare/max($s, $t)", "x := compare/min($A, $B)", "x := combinatorics/n-choose-k(5, 2)",
  "y := $r\nx := y[2]", "y := $A\nx := y[1,2]", "y := $A\nx := y[:,1]", "y := $A\nx := y[2,:]", "y := $r\nx := y[[1 3]]", "y := $r\nx := y[1..=2]", "y := $r\nx := y[y > $s]", "y := $A\nx := y[:]", "x := 1..5", "x := 1..=5", "x := 1..2..9", "x := $i..$j2", "x := [$r; $r2]", "x := [$v $v]", "x := [$A $v; $r]",
  "x<[u8]> := $r", "x<[f64]:1,4> := $A", "x<f32> := $s", "x<{f64}> := $r", "x := $s<u8>", "x<string> := $s",
  "x := $S ∪ $T", "x := $S ∩ $T", "x := $S ∖ $T", "x := $S Δ $T", "x := $S ⊆ $T", "x := $s ∈ $S", "x := set/size($S)", "x := set/insert($S, $t)", "x := set/remove($S, $s)", "x := {w * 2 | w <- $S}", "x := {w | w <- $S, w > $s}", "x := [w * w | w <- $r]",
  "x := $tb ⋈ $tc", "x := $tb ⟕ $tc", "x := $tb ⟖ $tc", "x := $tb ⟗ $tc", "x := $tb ⋉ $tc", "x := $tb ▷ $tc", "x := table/join($tb, $tc)", "y := $tb\nx := y.a", "y := $tb\nx := y[1]",
  "x := \"ab\" + \"cd\"", "x := (1, $s, \"t\")", "x := {a: $s, b: $t}", "y := {a: $s, b: $t}\nx := y.b", "y := ($s, $t)\nx := y.2", "x := {\"k\": $s}",
  "f(k<f64>) => <f64>\n  ├ 0 => 1\n  └ m => m * 2.\nx := f($s)", "f(k<f64>) => <f64>\n  ├ 0 => 1\n  └ m => m * 2.\nx := f($r)", "y := $s\nx<f64> := y?\n  | 1 => 10\n  | w, w > 2 => 20\n  | * => 0.",
  "#M(n<u64>) => <u64>\n  ├ :A(n<u64>)\n  └ :Done(out<u64>).\n\n#M(n<u64>) -> :A(n)\n  :A(n)\n    ├ n > 2u64 -> :A(n - 1u64)\n    └ * -> :Done(n)\n  :Done(out) => out.\n\nx := #M(6u64)",
  // ranges: every form, literal and variable operands in each position, typed kinds, as subscripts, inside a match arm and a comprehension
  "x := 1..2..=9", "y := 2\nx := y..3..12", "y := 2\nx := y..3..=12", "y := 3\nx := 1..y..10", "y := 3\nx := 1..y..=10", "y := 12\nx := 1..2..y", "y := 12\nx := 1..2..=y",
  "y := 2\nx := y..7", "y := 7\nx := 2..=y", "x := 1<u8>..2<u8>..9<u8>", "x := 1<u8>..2<u8>..=9<u8>", "x := 1<i16>..=5<i16>", "x := 0.5..0.25..2.0", "x := 0.5..0.25..=2.0",
  "y := $r\nx := y[1..2..=3]", "y := $r\nx := y[1..2..4]", "y := 2\nx := y? | n => 0..n..10 | * => 0..1..10.", "y := 2\nx := y? | n => 0..n..=10 | * => 0..1..=10.", "x := [ stats/sum/row(0..s..10) | s <- [2 5] ]",
];

fn zoo_program(i: u16, a: u32) -> Program {
  let a = a as usize;
  let f = |k: usize| format!("{}.{}", (a + k) % 7 + 2, [5, 0, 25][(a / 7 + k) % 3]);
  let t = ZOO[i as usize % ZOO.len()];
  let mut pre: Vec<String> = vec![];
  let mut body = t.to_string();
  // longest placeholders first
  let subs: Vec<(&str, String, String)> = vec![
    ("$r2", "r2".into(), format!("[{} {} {}]", f(5), f(6), f(7))), ("$q2", "q2".into(), format!("{}/{}", a % 5 + 1, 3)), ("$c2", "c2".into(), format!("{}+{}i", a % 3 + 1, a % 4 + 2)), ("$j2", "j2".into(), format!("{}<u8>", a % 4 + 6)),
    ("$tb", "tb".into(), format!("| k<u8> a<f64> | 1 {} | 2 {} | 2 {} |", f(0), f(1), f(2))), ("$tc", "tc".into(), format!("| k<u8> b<string> | 2 \"p\" | 3 \"q\" | 2 \"r\" |")),
    ("$A", "ma".into(), format!("[{} {}; {} {}]", f(0), f(1), f(2), f(4))), ("$B", "mb".into(), format!("[{} {}; {} {}]", f(3), f(2), f(1), f(5))), ("$w", "rw".into(), format!("[{} {}]", f(6), f(2))), ("$v", "cv".into(), format!("[{}; {}]", f(1), f(3))), ("$r", "rv".into(), format!("[{} {} {}]", f(2), f(0), f(4))),
    ("$S", "sa".into(), format!("{{{}, {}, {}}}", f(0), f(1), f(2))), ("$T", "sb".into(), format!("{{{}, {}, {}}}", f(1), f(2), f(3))),
    ("$s", "sc".into(), f(0)), ("$t", "tc2".into(), f(3)), ("$i", "ui".into(), format!("{}<u8>", a % 5 + 2)), ("$j", "uj".into(), format!("{}<u8>", a % 3 + 3)), ("$q", "qa".into(), format!("{}/{}", a % 4 + 1, 7)), ("$c", "ca".into(), format!("{}+{}i", a % 5 + 1, a % 2 + 1)),
  ];
  // odd variants bind operands to variables first (a variable operand takes its own dispatch arm), even ones write them inline
  for (ph, name, lit) in subs { if body.contains(ph) { if a % 2 == 1 { pre.push(format!("{} := {}", name, lit)); body = body.replace(ph, &name); } else { body = body.replace(ph, &lit); } } }
  let mut lines = pre;
  lines.extend(body.split('\n').map(|l| l.to_string()));
  // function / machine definitions span lines: keep the template text as one unit
  let lines = if t.contains("=>") || t.contains("#M") { let mut v: Vec<String> = lines.iter().filter(|l| l.contains(" := ") && !l.starts_with("x") && !l.starts_with("y")).cloned().collect(); v.push(body.clone()); v } else { lines };
  Program { lines, mutating: false, core: false, order_sensitive: true, features: vec![format!("zoo:{}", t.lines().last().unwrap_or("").chars().take(28).collect::<String>())] }
}

enum Run { Ok(Snapshot, RVal, Snapshot, Option<RVal>, Vec<String>), Rejected(String), StepFailed(String) }

/// interpret, snapshot, then apply `steps` (each element = one step(0,k) call), snapshot again
fn run(src: &str, steps: &[u64]) -> Run {
  let mut sess = Session::new();
  let out = sess.run(src);
  let v0 = match out { Outcome::Ok(v) => v, other => return Run::Rejected(other.show()) };
  let s0 = sess.snapshot();
  let names = sess.plan_names();
  let mut last = None;
  for k in steps {
    if *k == 0 { continue; }
    match catch_unwind(AssertUnwindSafe(|| sess.intrp.step(0, *k))) {
      Err(e) => return Run::StepFailed(format!("panic: {}", panic_msg(e))),
      Ok(Err(e)) => return Run::StepFailed(format!("error: {}", e.kind_name())),
      Ok(Ok(v)) => last = Some(from_value(&v)),
    }
  }
  Run::Ok(s0, v0, sess.snapshot(), last, names)
}

fn snap_diff(a: &Snapshot, b: &Snapshot) -> String {
  let mut out = vec![];
  for (k, v) in a { match b.get(k) { Some(w) if w == v => {} Some(w) => out.push(format!("{}: {} vs {}", k, v.show(), w.show())), None => out.push(format!("{} missing", k)) } }
  for k in b.keys() { if !a.contains_key(k) { out.push(format!("{} extra", k)); } }
  out.join("; ")
}

fn check(c: &Case) -> Verdict {
  let mut v = Verdict::new();
  let p = program(c);
  let src = p.source();
  let n = c.n as u64;
  for f in &p.features { v.label(format!("feature:{}", f)); }
  v.label(if p.mutating { "class:mutating" } else { "class:pure" });
  let r1 = run(&src, &[n]);
  let (s0, _v0, s1, l1, names) = match r1 {
    Run::Rejected(why) => { v.discard(format!("interpret rejected: {}", why.chars().take(40).collect::<String>())); return v; }
    Run::StepFailed(why) => {
      if !p.mutating { v.fail(format!("C19|pure-program-step-failed|{}", why.split(':').next().unwrap_or("")), format!("no assignment statement, yet step(0,{}) after a successful interpret failed: {}\n{}", n, why, src)); return v; }
      // a mutating program may legitimately run into an arithmetic failure while being re-evaluated (e.g. `x -= 1<u8>` underflows);
      // determinism then demands that n single steps fail as well
      v.label("mutating-step-failure");
      let singles: Vec<u64> = (0..n).map(|_| 1).collect();
      if let Run::Ok(..) = run(&src, &singles) { v.fail("C19|step-failure-not-deterministic", format!("step(0,{}) failed ({}) but {} x step(0,1) succeeded\n{}", n, why, n, src)); }
      return v;
    }
    Run::Ok(a, b, c2, d, e) => (a, b, c2, d, e),
  };
  let mut kinds: Vec<String> = names.clone(); kinds.sort(); kinds.dedup();
  if names.len() >= 3 && kinds.len() >= 2 && n >= 2 { v.key = Some(format!("{}|{}|{}", kinds.join(","), if n < 3 { "2" } else if n < 8 { "3-7" } else { "8+" }, p.mutating)); }
  // (a) pure programs: re-evaluation is a no-op
  if !p.mutating && s1 != s0 {
    let step = culprit(&names, &s0, &s1);
    v.fail(format!("C19|pure-program-changed|{}", step), format!("no assignment statement, but after step(0,{}) variables changed: {}\n{}", n, snap_diff(&s0, &s1), src));
    return v;
  }
  // (b) n single steps == one request for n steps, in a second instance
  let singles: Vec<u64> = (0..n).map(|_| 1).collect();
  match run(&src, &singles) {
    Run::Ok(t0, _, t1, l2, _) => {
      if t0 != s0 { v.fail("C19|instances-differ-after-interpret", format!("two interpreters disagree right after interpret: {}\n{}", snap_diff(&s0, &t0), src)); return v; }
      if t1 != s1 { v.fail(format!("C19|n-single-steps-differ|{}", culprit(&names, &s1, &t1)), format!("step(0,{}) vs {} x step(0,1): {}\n{}", n, n, snap_diff(&s1, &t1), src)); return v; }
      if n > 0 && l1 != l2 { v.fail("C19|step-return-value-differs", format!("returned {:?} vs {:?}\n{}", l1.map(|x| x.show()), l2.map(|x| x.show()), src)); return v; }
    }
    Run::Rejected(why) => { v.fail("C19|second-instance-rejected", format!("same program rejected by a second interpreter: {}\n{}", why, src)); return v; }
    Run::StepFailed(why) => { v.fail(format!("C19|step-failed|{}", why.split(':').next().unwrap_or("")), format!("{} x step(0,1): {}\n{}", n, why, src)); return v; }
  }
  // (c) a third instance on another thread (fresh hash seeds)
  let src2 = src.clone();
  let r3 = std::thread::Builder::new().stack_size(256 << 20).spawn(move || match run(&src2, &[n]) { Run::Ok(a, _, b, _, _) => Some((a, b)), _ => None }).unwrap().join().ok().flatten();
  match r3 {
    Some((u0, u1)) => { if u0 != s0 || u1 != s1 { v.fail("C19|thread-instance-differs", format!("interpreter on another thread disagrees: {} {}\n{}", snap_diff(&s0, &u0), snap_diff(&s1, &u1), src)); } }
    None => { v.fail("C19|thread-instance-failed", format!("same program failed on another thread\n{}", src)); }
  }
  v
}

/// name of the plan step kind most likely responsible: the last plan step whose name matches a changed variable's definition is unknown
/// here, so report the set of reduction-like step names present (coarse but place-specific)
fn culprit(names: &[String], _a: &Snapshot, _b: &Snapshot) -> String {
  let mut k: Vec<String> = names.iter().filter(|n| !n.starts_with("VariableDefine") && !n.starts_with("HorizontalConcatenate") && !n.starts_with("VerticalConcatenate") && !n.starts_with("Convert")).cloned().collect();
  k.sort(); k.dedup();
  k.join("+").chars().take(60).collect()
}
