//! C19 Re-evaluation is deterministic, and a no-op for programs without assignments.

use crate::engine::*;
use crate::mech::*;
use crate::progs::{self, Opts, Program};
use crate::rval::*;
use proptest::prelude::*;
use serde::{Deserialize, Serialize};
use std::panic::{catch_unwind, AssertUnwindSafe};

pub struct C19;

#[derive(Clone, Debug, Serialize, Deserialize)]
pub struct Case { pub choices: Vec<u32>, pub mutate: bool, pub n: u8 }

pub fn choices_s(max: usize) -> BoxedStrategy<Vec<u32>> { proptest::collection::vec(0u32..100_000, 6..=max).boxed() }

impl Prop for C19 {
  type Case = Case;
  const ID: &'static str = "C19";
  fn budget(t: Tier) -> u32 { t.pick(4_000, 60_000) }
  fn strategy(t: Tier, _k: &Known) -> BoxedStrategy<Case> {
    let maxn = t.pick(6u8, 40u8);
    (choices_s(90), any::<bool>(), 0..=maxn).prop_map(|(choices, mutate, n)| Case { choices, mutate, n }).boxed()
  }
  fn rule() -> &'static str {
    "case = a program from the shared typed generator (defines of scalars/strings/bools/matrices of several kinds, arithmetic, \
     comparison, logic, unary, ranges, indexing, stdlib calls incl. reductions, sets, tables, tuples, records, user functions, \
     comprehensions; with or without assignment / op-assignment / indexed assignment) and a step count n. Three interpreters evaluate it: \
     I1 then step(0,n); I2 then n x step(0,1); I3 on another thread (different hash seeds) then step(0,n). Non-trivial = plan has ≥3 steps \
     of ≥2 distinct kinds and n ≥ 2; distinct key = (sorted plan step names, n class, mutating?)."
  }
  fn assumptions() -> Vec<String> { vec!["programs the interpreter rejects are discarded and counted".into(), "`ans` is excluded from snapshots".into()] }
  fn describe(c: &Case) -> String { let p = program(c); format!("[steps {}] {}", c.n, p.lines.join("; ")) }
  fn check(c: &Case, _cx: &Cx) -> Verdict { check(c) }
}

pub fn program(c: &Case) -> Program { progs::build(&c.choices, Opts { allow_mutation: c.mutate, allow_noncore: true, max_stmts: 12, trailing_other: false }) }

enum Run { Ok(Snapshot, RVal, Snapshot, Option<RVal>, Vec<String>), Rejected(String), StepFailed(String) }

/// interpret, snapshot, then apply `steps` (each element = one step(0,k) call), snapshot again
fn run(src: &str, steps: &[u64]) -> Run {
  let mut sess = Session::new();
  let out = sess.run(src);
  let v0 = match out { Outcome::Ok(v) => v, other => return Run::Rejected(other.show()) };
  let s0 = sess.snapshot();
  let names = sess.plan_names();
  let mut last = None;
  for k in steps {
    if *k == 0 { continue; }
    match catch_unwind(AssertUnwindSafe(|| sess.intrp.step(0, *k))) {
      Err(e) => return Run::StepFailed(format!("panic: {}", panic_msg(e))),
      Ok(Err(e)) => return Run::StepFailed(format!("error: {}", e.kind_name())),
      Ok(Ok(v)) => last = Some(from_value(&v)),
    }
  }
  Run::Ok(s0, v0, sess.snapshot(), last, names)
}

fn snap_diff(a: &Snapshot, b: &Snapshot) -> String {
  let mut out = vec![];
  for (k, v) in a { match b.get(k) { Some(w) if w == v => {} Some(w) => out.push(format!("{}: {} vs {}", k, v.show(), w.show())), None => out.push(format!("{} missing", k)) } }
  for k in b.keys() { if !a.contains_key(k) { out.push(format!("{} extra", k)); } }
  out.join("; ")
}

fn check(c: &Case) -> Verdict {
  let mut v = Verdict::new();
  let p = program(c);
  let src = p.source();
  let n = c.n as u64;
  for f in &p.features { v.label(format!("feature:{}", f)); }
  v.label(if p.mutating { "class:mutating" } else { "class:pure" });
  let r1 = run(&src, &[n]);
  let (s0, _v0, s1, l1, names) = match r1 {
    Run::Rejected(why) => { v.discard(format!("interpret rejected: {}", why.chars().take(40).collect::<String>())); return v; }
    Run::StepFailed(why) => {
      if !p.mutating { v.fail(format!("C19|pure-program-step-failed|{}", why.split(':').next().unwrap_or("")), format!("no assignment statement, yet step(0,{}) after a successful interpret failed: {}\n{}", n, why, src)); return v; }
      // a mutating program may legitimately run into an arithmetic failure while being re-evaluated (e.g. `x -= 1<u8>` underflows);
      // determinism then demands that n single steps fail as well
      v.label("mutating-step-failure");
      let singles: Vec<u64> = (0..n).map(|_| 1).collect();
      if let Run::Ok(..) = run(&src, &singles) { v.fail("C19|step-failure-not-deterministic", format!("step(0,{}) failed ({}) but {} x step(0,1) succeeded\n{}", n, why, n, src)); }
      return v;
    }
    Run::Ok(a, b, c2, d, e) => (a, b, c2, d, e),
  };
  let mut kinds: Vec<String> = names.clone(); kinds.sort(); kinds.dedup();
  if names.len() >= 3 && kinds.len() >= 2 && n >= 2 { v.key = Some(format!("{}|{}|{}", kinds.join(","), if n < 3 { "2" } else if n < 8 { "3-7" } else { "8+" }, p.mutating)); }
  // (a) pure programs: re-evaluation is a no-op
  if !p.mutating && s1 != s0 {
    let step = culprit(&names, &s0, &s1);
    v.fail(format!("C19|pure-program-changed|{}", step), format!("no assignment statement, but after step(0,{}) variables changed: {}\n{}", n, snap_diff(&s0, &s1), src));
    return v;
  }
  // (b) n single steps == one request for n steps, in a second instance
  let singles: Vec<u64> = (0..n).map(|_| 1).collect();
  match run(&src, &singles) {
    Run::Ok(t0, _, t1, l2, _) => {
      if t0 != s0 { v.fail("C19|instances-differ-after-interpret", format!("two interpreters disagree right after interpret: {}\n{}", snap_diff(&s0, &t0), src)); return v; }
      if t1 != s1 { v.fail(format!("C19|n-single-steps-differ|{}", culprit(&names, &s1, &t1)), format!("step(0,{}) vs {} x step(0,1): {}\n{}", n, n, snap_diff(&s1, &t1), src)); return v; }
      if n > 0 && l1 != l2 { v.fail("C19|step-return-value-differs", format!("returned {:?} vs {:?}\n{}", l1.map(|x| x.show()), l2.map(|x| x.show()), src)); return v; }
    }
    Run::Rejected(why) => { v.fail("C19|second-instance-rejected", format!("same program rejected by a second interpreter: {}\n{}", why, src)); return v; }
    Run::StepFailed(why) => { v.fail(format!("C19|step-failed|{}", why.split(':').next().unwrap_or("")), format!("{} x step(0,1): {}\n{}", n, why, src)); return v; }
  }
  // (c) a third instance on another thread (fresh hash seeds)
  let src2 = src.clone();
  let r3 = std::thread::Builder::new().stack_size(256 << 20).spawn(move || match run(&src2, &[n]) { Run::Ok(a, _, b, _, _) => Some((a, b)), _ => None }).unwrap().join().ok().flatten();
  match r3 {
    Some((u0, u1)) => { if u0 != s0 || u1 != s1 { v.fail("C19|thread-instance-differs", format!("interpreter on another thread disagrees: {} {}\n{}", snap_diff(&s0, &u0), snap_diff(&s1, &u1), src)); } }
    None => { v.fail("C19|thread-instance-failed", format!("same program failed on another thread\n{}", src)); }
  }
  v
}

/// name of the plan step kind most likely responsible: the last plan step whose name matches a changed variable's definition is unknown
/// here, so report the set of reduction-like step names present (coarse but place-specific)
fn culprit(names: &[String], _a: &Snapshot, _b: &Snapshot) -> String {
  let mut k: Vec<String> = names.iter().filter(|n| !n.starts_with("VariableDefine") && !n.starts_with("HorizontalConcatenate") && !n.starts_with("VerticalConcatenate") && !n.starts_with("Convert")).cloned().collect();
  k.sort(); k.dedup();
  k.join("+").chars().take(60).collect()
}
