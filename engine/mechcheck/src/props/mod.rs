pub mod c01;
pub mod c03;
pub mod c04;
pub mod c05;
pub mod c11;
pub mod c12;
pub mod c13;
pub mod c15;
