pub mod c15;
