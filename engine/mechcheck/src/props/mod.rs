pub mod c01;
pub mod c03;
pub mod c11;
pub mod c15;
