//! Reference values: a harness-side, storage-form-free model of Mech values.
//! Comparison is kind- and shape-exact; floats compare bitwise except that every NaN is
//! canonicalised to one bit pattern on the way in.

use mech_core::*;
use mech_core::matrix::Matrix;
use serde::{Deserialize, Serialize};
use std::collections::BTreeMap;

pub const NAN64: u64 = 0x7ff8_0000_0000_0000;
pub const NAN32: u32 = 0x7fc0_0000;

#[derive(Clone, Debug, PartialEq, Eq, Hash, PartialOrd, Ord, Serialize, Deserialize)]
pub enum Sc {
  U(u8, #[serde(with = "u128s")] u128),  // (bits, value)
  I(u8, #[serde(with = "i128s")] i128),  // (bits, value)
  F32(u32),     // bit pattern, NaN canonical
  F64(u64),     // bit pattern, NaN canonical
  R(i64, i64),  // as stored (numer, denom)
  C(u64, u64),  // bit patterns of re, im
  Bool(bool),
  Str(String),
  Atom(u64),
  Empty,
}

pub mod u128s {
  use serde::{Deserialize, Deserializer, Serializer};
  pub fn serialize<S: Serializer>(v: &u128, s: S) -> Result<S::Ok, S::Error> { s.serialize_str(&v.to_string()) }
  pub fn deserialize<'de, D: Deserializer<'de>>(d: D) -> Result<u128, D::Error> {
    let s = String::deserialize(d)?;
    s.parse().map_err(serde::de::Error::custom)
  }
}
pub mod i128s {
  use serde::{Deserialize, Deserializer, Serializer};
  pub fn serialize<S: Serializer>(v: &i128, s: S) -> Result<S::Ok, S::Error> { s.serialize_str(&v.to_string()) }
  pub fn deserialize<'de, D: Deserializer<'de>>(d: D) -> Result<i128, D::Error> {
    let s = String::deserialize(d)?;
    s.parse().map_err(serde::de::Error::custom)
  }
}

pub fn f64b(x: f64) -> Sc { if x.is_nan() { Sc::F64(NAN64) } else { Sc::F64(x.to_bits()) } }
pub fn f32b(x: f32) -> Sc { if x.is_nan() { Sc::F32(NAN32) } else { Sc::F32(x.to_bits()) } }

impl Sc {
  pub fn kind(&self) -> String {
    match self {
      Sc::U(b, _) => format!("u{}", b),
      Sc::I(b, _) => format!("i{}", b),
      Sc::F32(_) => "f32".into(),
      Sc::F64(_) => "f64".into(),
      Sc::R(..) => "r64".into(),
      Sc::C(..) => "c64".into(),
      Sc::Bool(_) => "bool".into(),
      Sc::Str(_) => "string".into(),
      Sc::Atom(_) => "atom".into(),
      Sc::Empty => "_".into(),
    }
  }
  pub fn as_f64(&self) -> Option<f64> {
    match self {
      Sc::F64(b) => Some(f64::from_bits(*b)),
      Sc::F32(b) => Some(f32::from_bits(*b) as f64),
      Sc::U(_, v) => Some(*v as f64),
      Sc::I(_, v) => Some(*v as f64),
      Sc::R(n, d) => Some(*n as f64 / *d as f64),
      _ => None,
    }
  }
  pub fn show(&self) -> String {
    match self {
      Sc::U(b, v) => format!("{}u{}", v, b),
      Sc::I(b, v) => format!("{}i{}", v, b),
      Sc::F32(b) => format!("{:?}f32", f32::from_bits(*b)),
      Sc::F64(b) => format!("{:?}", f64::from_bits(*b)),
      Sc::R(n, d) => format!("{}/{}", n, d),
      Sc::C(a, b) => format!("{:?}+{:?}i", f64::from_bits(*a), f64::from_bits(*b)),
      Sc::Bool(b) => format!("{}", b),
      Sc::Str(s) => format!("{:?}", s),
      Sc::Atom(a) => format!(":{}", a),
      Sc::Empty => "_".into(),
    }
  }
}

#[derive(Clone, Debug, PartialEq, Eq, Hash, PartialOrd, Ord, Serialize, Deserialize)]
pub enum RVal {
  S(Sc),
  /// column-major data
  Mat { kind: String, rows: usize, cols: usize, data: Vec<RVal> },
  Set { kind: String, elems: Vec<RVal>, declared: usize },
  Tuple(Vec<RVal>),
  Record(Vec<(String, String, RVal)>),
  /// columns in order: (name, kind, cells)
  Table { rows: usize, cols: Vec<(String, String, Vec<RVal>)> },
  Map(Vec<(RVal, RVal)>),
  Enum(String),
  Other(String),
}

impl RVal {
  pub fn show(&self) -> String {
    match self {
      RVal::S(s) => s.show(),
      RVal::Mat { kind, rows, cols, data } => {
        let mut s = format!("[{}:{}x{}|", kind, rows, cols);
        for r in 0..*rows {
          if r > 0 { s.push_str("; "); }
          for c in 0..*cols {
            if c > 0 { s.push(' '); }
            s.push_str(&data[c * rows + r].show());
          }
        }
        s.push(']');
        s
      }
      RVal::Set { kind, elems, declared } => format!("{{{}#{}|{}}}", kind, declared, elems.iter().map(|e| e.show()).collect::<Vec<_>>().join(", ")),
      RVal::Tuple(t) => format!("({})", t.iter().map(|e| e.show()).collect::<Vec<_>>().join(", ")),
      RVal::Record(f) => format!("{{{}}}", f.iter().map(|(n, k, v)| format!("{}<{}>: {}", n, k, v.show())).collect::<Vec<_>>().join(", ")),
      RVal::Table { rows, cols } => format!("|{} rows| {}", rows, cols.iter().map(|(n, k, c)| format!("{}<{}>=[{}]", n, k, c.iter().map(|e| e.show()).collect::<Vec<_>>().join(" "))).collect::<Vec<_>>().join(" | ")),
      RVal::Map(m) => format!("{{{}}}", m.iter().map(|(k, v)| format!("{}: {}", k.show(), v.show())).collect::<Vec<_>>().join(", ")),
      RVal::Enum(s) => format!("enum {}", s),
      RVal::Other(s) => format!("other {}", s),
    }
  }
  pub fn mat(kind: &str, rows: usize, cols: usize, data: Vec<Sc>) -> RVal {
    RVal::Mat { kind: kind.to_string(), rows, cols, data: data.into_iter().map(RVal::S).collect() }
  }
  pub fn shape(&self) -> (usize, usize) {
    match self { RVal::Mat { rows, cols, .. } => (*rows, *cols), _ => (1, 1) }
  }
  /// element sequence (column-major) for a matrix, or the single scalar
  pub fn elems(&self) -> Vec<RVal> {
    match self { RVal::Mat { data, .. } => data.clone(), x => vec![x.clone()] }
  }
  pub fn kind(&self) -> String {
    match self {
      RVal::S(s) => s.kind(),
      RVal::Mat { kind, .. } => kind.clone(),
      RVal::Set { kind, .. } => format!("{{{}}}", kind),
      RVal::Tuple(_) => "tuple".into(),
      RVal::Record(_) => "record".into(),
      RVal::Table { .. } => "table".into(),
      RVal::Map(_) => "map".into(),
      RVal::Enum(_) => "enum".into(),
      RVal::Other(_) => "other".into(),
    }
  }
}

fn mat_of<T: Clone + std::fmt::Debug + PartialEq + 'static>(m: &Matrix<T>, kind: &str, f: impl Fn(&T) -> RVal) -> RVal {
  let sh = m.shape();
  let v = m.as_vec();
  RVal::Mat { kind: kind.to_string(), rows: sh[0], cols: sh[1], data: v.iter().map(f).collect() }
}

/// Which nalgebra storage form holds the data (a label only; never part of an oracle).
pub fn form_of(v: &Value) -> &'static str {
  fn f<T>(m: &Matrix<T>) -> &'static str {
    match m {
      Matrix::RowDVector(_) => "RD",
      Matrix::DVector(_) => "VD",
      Matrix::DMatrix(_) => "MD",
      #[allow(unreachable_patterns)]
      _ => "M?",
    }
  }
  match v {
    Value::MutableReference(r) => form_of(&r.borrow()),
    Value::MatrixIndex(m) => f(m),
    Value::MatrixBool(m) => f(m),
    Value::MatrixU8(m) => f(m),
    Value::MatrixU16(m) => f(m),
    Value::MatrixU32(m) => f(m),
    Value::MatrixU64(m) => f(m),
    Value::MatrixU128(m) => f(m),
    Value::MatrixI8(m) => f(m),
    Value::MatrixI16(m) => f(m),
    Value::MatrixI32(m) => f(m),
    Value::MatrixI64(m) => f(m),
    Value::MatrixI128(m) => f(m),
    Value::MatrixF32(m) => f(m),
    Value::MatrixF64(m) => f(m),
    Value::MatrixString(m) => f(m),
    Value::MatrixR64(m) => f(m),
    Value::MatrixC64(m) => f(m),
    Value::MatrixValue(m) => f(m),
    _ => "S",
  }
}

pub fn from_value(v: &Value) -> RVal {
  match v {
    Value::U8(x) => RVal::S(Sc::U(8, *x.borrow() as u128)),
    Value::U16(x) => RVal::S(Sc::U(16, *x.borrow() as u128)),
    Value::U32(x) => RVal::S(Sc::U(32, *x.borrow() as u128)),
    Value::U64(x) => RVal::S(Sc::U(64, *x.borrow() as u128)),
    Value::U128(x) => RVal::S(Sc::U(128, *x.borrow())),
    Value::I8(x) => RVal::S(Sc::I(8, *x.borrow() as i128)),
    Value::I16(x) => RVal::S(Sc::I(16, *x.borrow() as i128)),
    Value::I32(x) => RVal::S(Sc::I(32, *x.borrow() as i128)),
    Value::I64(x) => RVal::S(Sc::I(64, *x.borrow() as i128)),
    Value::I128(x) => RVal::S(Sc::I(128, *x.borrow())),
    Value::F32(x) => RVal::S(f32b(*x.borrow())),
    Value::F64(x) => RVal::S(f64b(*x.borrow())),
    Value::String(x) => RVal::S(Sc::Str(x.borrow().clone())),
    Value::Bool(x) => RVal::S(Sc::Bool(*x.borrow())),
    Value::Atom(x) => RVal::S(Sc::Atom(x.borrow().id())),
    Value::R64(x) => { let r = x.borrow(); RVal::S(Sc::R(*r.0.numer(), *r.0.denom())) }
    Value::C64(x) => { let c = x.borrow(); RVal::S(Sc::C(cb(c.0.re), cb(c.0.im))) }
    Value::MatrixIndex(m) => mat_of(m, "ix", |e| RVal::S(Sc::U(64, *e as u128))),
    Value::MatrixBool(m) => mat_of(m, "bool", |e| RVal::S(Sc::Bool(*e))),
    Value::MatrixU8(m) => mat_of(m, "u8", |e| RVal::S(Sc::U(8, *e as u128))),
    Value::MatrixU16(m) => mat_of(m, "u16", |e| RVal::S(Sc::U(16, *e as u128))),
    Value::MatrixU32(m) => mat_of(m, "u32", |e| RVal::S(Sc::U(32, *e as u128))),
    Value::MatrixU64(m) => mat_of(m, "u64", |e| RVal::S(Sc::U(64, *e as u128))),
    Value::MatrixU128(m) => mat_of(m, "u128", |e| RVal::S(Sc::U(128, *e))),
    Value::MatrixI8(m) => mat_of(m, "i8", |e| RVal::S(Sc::I(8, *e as i128))),
    Value::MatrixI16(m) => mat_of(m, "i16", |e| RVal::S(Sc::I(16, *e as i128))),
    Value::MatrixI32(m) => mat_of(m, "i32", |e| RVal::S(Sc::I(32, *e as i128))),
    Value::MatrixI64(m) => mat_of(m, "i64", |e| RVal::S(Sc::I(64, *e as i128))),
    Value::MatrixI128(m) => mat_of(m, "i128", |e| RVal::S(Sc::I(128, *e))),
    Value::MatrixF32(m) => mat_of(m, "f32", |e| RVal::S(f32b(*e))),
    Value::MatrixF64(m) => mat_of(m, "f64", |e| RVal::S(f64b(*e))),
    Value::MatrixString(m) => mat_of(m, "string", |e| RVal::S(Sc::Str(e.clone()))),
    Value::MatrixR64(m) => mat_of(m, "r64", |e| RVal::S(Sc::R(*e.0.numer(), *e.0.denom()))),
    Value::MatrixC64(m) => mat_of(m, "c64", |e| RVal::S(Sc::C(cb(e.0.re), cb(e.0.im)))),
    Value::MatrixValue(m) => mat_of(m, "*", |e| from_value(e)),
    Value::Set(s) => {
      let s = s.borrow();
      RVal::Set { kind: format!("{}", s.kind), elems: s.set.iter().map(from_value).collect(), declared: s.num_elements }
    }
    Value::Tuple(t) => RVal::Tuple(t.borrow().elements.iter().map(|e| from_value(e)).collect()),
    Value::Record(r) => {
      let r = r.borrow();
      let mut out = vec![];
      for (i, (id, val)) in r.data.iter().enumerate() {
        let name = r.field_names.get(id).cloned().unwrap_or_else(|| format!("#{}", id));
        let k = r.kinds.get(i).map(|k| format!("{}", k)).unwrap_or_default();
        out.push((name, k, from_value(val)));
      }
      RVal::Record(out)
    }
    Value::Table(t) => {
      let t = t.borrow();
      let mut cols = vec![];
      for (id, (k, col)) in t.data.iter() {
        let name = t.col_names.get(id).cloned().unwrap_or_else(|| format!("#{}", id));
        let cells: Vec<RVal> = col.as_vec().iter().map(from_value).collect();
        cols.push((name, format!("{}", k), cells));
      }
      RVal::Table { rows: t.rows, cols }
    }
    Value::Map(m) => {
      let m = m.borrow();
      RVal::Map(m.map.iter().map(|(k, v)| (from_value(k), from_value(v))).collect())
    }
    Value::Enum(e) => RVal::Enum(format!("{:?}", e.borrow().variants.iter().map(|(id, v)| (*id, v.as_ref().map(from_value))).collect::<Vec<_>>())),
    Value::MutableReference(r) => from_value(&r.borrow()),
    Value::Typed(v, k) => RVal::Other(format!("typed({},{})", from_value(v).show(), k)),
    Value::Id(x) => RVal::Other(format!("id({})", x)),
    Value::Index(x) => RVal::S(Sc::U(64, *x.borrow() as u128)),
    Value::Kind(k) => RVal::Other(format!("kind({})", k)),
    Value::IndexAll => RVal::Other("indexall".into()),
    Value::EmptyKind(k) => RVal::Other(format!("emptykind({})", k)),
    Value::Empty => RVal::S(Sc::Empty),
  }
}

/// complex parts: NaN canonical, and -0.0 is not distinguished from 0.0 (a negated literal `-a+bi` negates both parts)
fn cb(x: f64) -> u64 { if x.is_nan() { NAN64 } else if x == 0.0 { 0f64.to_bits() } else { x.to_bits() } }

pub type Snapshot = BTreeMap<String, RVal>;
