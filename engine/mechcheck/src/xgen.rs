//! Recursive grammar generator of Mech *source text*. Syntax only: nothing here needs to type-check or evaluate, it only has to
//! parse, so every syntactic form can be nested into every other. Used by C08 (format round trip) and C09 (bases for token-level
//! mutation). A text is derived deterministically from a vector of u32 choices (generated and shrunk by proptest): fewer / smaller
//! choices give shorter / simpler text (choice 0 always selects the simplest alternative).

pub struct G<'a> { c: &'a [u32], i: usize, pub feats: Vec<&'static str> }

pub const STRINGS: &[&str] = &[
  "\"s\"", "\"\"", "\"two words\"", "\"héllo wörld\"", "\"😀 ok\"", "\"a;b\"", "\"x := 1\"", "\"-- not a comment\"", "\"[1 2; 3 4]\"", "\"{x}\"",
  "\"it's\"", "\"C:\\\\dir\"", "\"tab\\there\"", "\"line\\nbreak\"", "\"100%\"", "\"a|b\"", "\"<u8>\"", "\"1..=3\"",
  "\"\"\"raw text\"\"\"", "\"\"\"raw \"quoted\" text\"\"\"", "\"\"\"raw \\ backslash\"\"\"", "\"\"\"both \" and \\ here\"\"\"", "\"\"\"two \"\" quotes\"\"\"", 
  "\"(paren\"", "\"=>\"", "\"日本語\"", "\"α β\"", "\"#tag\"", "\"a, b\"", "\"$x^2$\"", "\"`code`\"", "\"*bold*\"", "\"_u_\"",
];
pub const NUMBERS: &[&str] = &[
  "1", "0", "42", "1_000", "3.14", "0.5", "10.0", "1e3", "1.5e-3", "2E+2", "6.02e23", "0x1F", "0xff_ff", "0b1010", "0o17", "0d99", "3/4", "10/4", "2i", "1+2i", "1.5-2.5i",
  "5u8", "200u16", "7u32", "9u64", "1u128", "2.5f32", "7f64", "1<i8>", "300<u16>", "2<i64>", "1.5<f32>", "1<r64>", "1/3<r64>", "12<u8>", "0.25", "100", "7<i32>", "3<u64>", "8<i128>",
];
pub const IDENTS: &[&str] = &["x", "y", "z", "abc", "foo", "val2", "x1", "my-var", "a/b", "Δt", "π", "x_y", "camelCase", "αβ", "n", "m", "acc", "xs", "rest", "t0"];
pub const KINDS: &[&str] = &["u8", "i32", "f64", "f32", "u64", "i8", "string", "bool", "r64", "c64", "[u8]", "[f64]", "[f64]:2,2", "[u8]:1,3", "{u8}", "{f64}", "(u8,f64)", "f64?", "_", "*", "[string]", "[bool]:2,1", "{string}", "u8?", "[f64]:_,2"];
const ARITH: &[&str] = &["+", "-", "*", "/", "%", "^", "×", "÷", "**", "·", "⨯", "\\"];
const CMP: &[&str] = &["<", ">", "<=", ">=", "==", "!=", "≤", "≥", "≠", "⩵"];
const LOGIC: &[&str] = &["&&", "||", "⊕", "⊻", "&", "|"];
const SETOPS: &[&str] = &["∪", "∩", "∖", "Δ", "⊆", "⊊", "⊇", "⊋", "∈", "∉"];
const TABLEOPS: &[&str] = &["⋈", "⟕", "⟖", "⟗", "⋉", "▷"];
const CALLS: &[&str] = &["math/sin", "math/cos", "math/atan2", "stats/sum/row", "stats/sum/column", "matrix/transpose", "set/size", "set/insert", "table/join", "foo", "f", "io/println", "string/concat", "combinatorics/n-choose-k", "compare/max", "compare/min"];

impl<'a> G<'a> {
  pub fn new(c: &'a [u32]) -> G<'a> { G { c, i: 0, feats: vec![] } }
  fn next(&mut self) -> u32 { let v = self.c.get(self.i).copied().unwrap_or(0); self.i += 1; v }
  fn pick(&mut self, n: usize) -> usize { if n == 0 { 0 } else { (self.next() as usize) % n } }
  pub fn done(&self) -> bool { self.i >= self.c.len() }
  fn feat(&mut self, f: &'static str) { if !self.feats.contains(&f) { self.feats.push(f); } }
  fn from(&mut self, pool: &[&'static str]) -> &'static str { pool[self.pick(pool.len())] }
  fn sp(&mut self) -> &'static str { ["", " ", "  "][self.pick(3)] }

  pub fn ident(&mut self) -> String { self.from(IDENTS).to_string() }
  pub fn number(&mut self) -> String { self.feat("number"); self.from(NUMBERS).to_string() }
  pub fn string(&mut self) -> String { self.feat("string"); self.from(STRINGS).to_string() }
  pub fn kind(&mut self) -> String { self.from(KINDS).to_string() }

  pub fn literal(&mut self) -> String {
    match self.pick(9) {
      0 | 1 | 2 => self.number(),
      3 | 4 => self.string(),
      5 => { self.feat("bool"); self.from(&["true", "false", "✓", "✗"]).to_string() }
      6 => { self.feat("atom"); format!(":{}", self.from(&["red", "ok", "none", "Done", "a1"])) }
      7 => { self.feat("empty"); "_".to_string() }
      _ => { self.feat("typed-literal"); let n = self.from(&["1", "42", "3.5", "0x1F", "1e3", "255", "1_000", "0b11"]); let k = self.from(&["u8", "i64", "f32", "f64", "u64", "i8", "r64"]); format!("{}<{}>", n, k) }
    }
  }

  /// `depth`: remaining expression depth; `nest`: remaining bracket nesting (the parser is exponential in nesting depth)
  pub fn expr(&mut self, depth: u32, nest: u32) -> String {
    if depth == 0 { return if self.pick(3) == 0 { self.ident() } else { self.literal() }; }
    let d = depth - 1;
    let sel = self.pick(30);
    match sel {
      0 | 1 => self.literal(),
      2 => self.ident(),
      3 | 4 => { self.feat("arithmetic"); let (a, op, b) = (self.expr(d, nest), self.from(ARITH), self.expr(d, nest)); format!("{} {} {}", a, op, b) }
      5 => { self.feat("comparison"); let (a, op, b) = (self.expr(d, nest), self.from(CMP), self.expr(d, nest)); format!("{} {} {}", a, op, b) }
      6 => { self.feat("logic"); let (a, op, b) = (self.expr(d, nest), self.from(LOGIC), self.expr(d, nest)); format!("{} {} {}", a, op, b) }
      7 => { self.feat("set-op"); let (a, op, b) = (self.expr(d, nest), self.from(SETOPS), self.expr(d, nest)); format!("{} {} {}", a, op, b) }
      8 if nest > 0 => { self.feat("paren"); let a = self.expr(d, nest - 1); let s = self.sp(); format!("({}{}{})", s, a, s) }
      9 => { self.feat("negate"); let a = self.expr(0, nest); format!("-{}", a) }
      10 => { self.feat("not"); let a = self.expr(0, nest); format!("{}{}", self.from(&["!", "¬"]), a) }
      11 => { self.feat("transpose"); format!("{}'", self.ident()) }
      12 if nest > 0 => { self.feat("matrix-row"); let n = self.pick(4) + 1; let sep = self.from(&[" ", ", ", "  "]); let v: Vec<String> = (0..n).map(|_| self.expr(d.min(1), nest - 1)).collect(); format!("[{}]", v.join(sep)) }
      13 if nest > 0 => { self.feat("matrix"); let (r, c) = (self.pick(3) + 1, self.pick(3) + 1); let rs = self.from(&["; ", ";", "\n "]); let rows: Vec<String> = (0..r).map(|_| (0..c).map(|_| self.expr(0, nest - 1)).collect::<Vec<_>>().join(" ")).collect(); format!("[{}]", rows.join(rs)) }
      14 if nest > 0 => { self.feat("set"); let n = self.pick(4); let v: Vec<String> = (0..n).map(|_| self.expr(d.min(1), nest - 1)).collect(); if v.is_empty() { "{}".to_string() } else { format!("{{{}}}", v.join(", ")) } }
      15 if nest > 0 => { self.feat("tuple"); let n = self.pick(3) + 2; let v: Vec<String> = (0..n).map(|_| self.expr(d.min(1), nest - 1)).collect(); format!("({})", v.join(", ")) }
      16 if nest > 0 => { self.feat("record"); let n = self.pick(3) + 1; let v: Vec<String> = (0..n).map(|i| { let e = self.expr(d.min(1), nest - 1); let k = if self.pick(3) == 0 { format!("<{}>", self.from(&["u8", "f64", "string"])) } else { String::new() }; format!("{}{}: {}", ["a", "b", "c", "d"][i], k, e) }).collect(); format!("{{{}}}", v.join(", ")) }
      17 if nest > 0 => { self.feat("map"); let n = self.pick(3) + 1; let v: Vec<String> = (0..n).map(|_| { let k = self.string(); let e = self.expr(d.min(1), nest - 1); format!("{}: {}", k, e) }).collect(); format!("{{{}}}", v.join(", ")) }
      18 => { self.feat("range"); let (a, b) = (self.expr(0, nest), self.expr(0, nest)); match self.pick(4) { 0 => format!("{}..{}", a, b), 1 => format!("{}..={}", a, b), 2 => { let s = self.expr(0, nest); format!("{}..{}..{}", a, s, b) } _ => { let s = self.expr(0, nest); format!("{}..{}..={}", a, s, b) } } }
      19 | 20 if nest > 0 => { self.feat("subscript"); let x = self.ident(); let n = self.pick(9);
        let ix = |g: &mut G, nest: u32| -> String { match g.pick(6) { 0 => g.number(), 1 => ":".to_string(), 2 => g.ident(), 3 => { let (a, b) = (g.expr(0, nest), g.expr(0, nest)); format!("{}..={}", a, b) } 4 if nest > 0 => { let (a, b) = (g.expr(0, nest), g.expr(0, nest)); format!("[{} {}]", a, b) } _ => g.expr(1, nest) } };
        match n { 0 | 1 => { let i = ix(self, nest - 1); format!("{}[{}]", x, i) } 2 | 3 => { let (i, j) = (ix(self, nest - 1), ix(self, nest - 1)); let s = self.from(&[",", ", "]); format!("{}[{}{}{}]", x, i, s, j) }
          4 => format!("{}.{}", x, self.from(&["a", "b", "x", "y", "name"])), 5 => format!("{}.{}", x, self.pick(3) + 1), 6 => { self.feat("swizzle"); format!("{}.{},{}", x, self.from(&["x", "y"]), self.from(&["y", "z", "x"])) }
          7 => { let k = self.expr(0, nest - 1); format!("{}{{{}}}", x, k) } _ => { let i = ix(self, nest - 1); format!("{}.{}[{}]", x, self.from(&["a", "x"]), i) } } }
      21 | 22 if nest > 0 => { self.feat("call"); let f = self.from(CALLS); let n = self.pick(3) + 1; let named = self.pick(4) == 0; if named { self.feat("named-args"); }
        let v: Vec<String> = (0..n).map(|i| { let e = self.expr(d.min(1), nest - 1); if named { format!("{}: {}", ["x", "y", "z"][i], e) } else { e } }).collect(); format!("{}({})", f, v.join(", ")) }
      23 if nest > 0 => { self.feat("kind-annotated-expr"); let k = self.kind(); let a = self.expr(0, nest); if a.contains('<') || k.contains('(') || k == "*" { a } else { format!("{}<{}>", a, k) } }
      24 if nest > 0 => { self.feat("set-comprehension"); let (v, e, src) = (self.from(&["q", "w", "k"]), self.expr(d.min(1), nest - 1), self.expr(0, nest - 1)); let e2 = if self.pick(2) == 0 { let c = self.expr(0, nest - 1); format!(", {} {} {}", v, self.from(CMP), c) } else { String::new() }; format!("{{{} | {} <- {}{}}}", e, v, src, e2) }
      25 if nest > 0 => { self.feat("matrix-comprehension"); let (v, e, src) = (self.from(&["q", "w"]), self.expr(d.min(1), nest - 1), self.expr(0, nest - 1)); format!("[{} | {} <- {}]", e, v, src) }
      26 if nest > 0 => { self.feat("atom-payload"); let e = self.expr(d.min(1), nest - 1); format!(":{}({})", self.from(&["some", "ok", "red", "Done"]), e) }
      27 => { self.feat("table-op"); let (a, op, b) = (self.ident(), self.from(TABLEOPS), self.ident()); format!("{} {} {}", a, op, b) }
      28 if nest > 0 => { self.feat("fsm-call"); let e = self.expr(0, nest - 1); format!("#{}({})", self.from(&["M", "Counter", "bubble-sort"]), e) }
      _ => self.literal(),
    }
  }

  fn pattern(&mut self, nest: u32) -> String {
    // (the generated array pattern hangs off the high part of the choice word, so that small / older choice words decode as before)
    let w = self.next() as usize;
    match if w % 9 == 7 && (w / 9) % 2 == 1 { 9 } else { w % 9 } {
      0 => "*".to_string(), 1 => self.number(), 2 => self.ident(), 3 => self.string(),
      4 if nest > 0 => { let (a, b) = (self.pattern(nest - 1), self.pattern(nest - 1)); format!("({}, {})", a, b) }
      5 => format!(":{}", self.from(&["red", "none", "Done"])),
      6 if nest > 0 => { let a = self.pattern(nest - 1); format!(":{}({})", self.from(&["some", "ok"]), a) }
      7 => self.from(&["[h ...]", "[... l]", "[]", "[a, b | rest]", "[x … y]", "[x]"]).to_string(),
      9 => {
        // generated array pattern: 0-3 element patterns (names, wildcards, numbers), optionally a spread (… / ... / |) and 0-3 more
        self.feat("array-pattern-generated");
        let sep = if self.pick(3) == 0 { ", " } else { " " };
        let elems = |g: &mut Self, n: usize| -> Vec<String> { (0..n).map(|_| match g.pick(5) { 0 => "*".to_string(), 1 => g.number(), _ => g.ident() }).collect() };
        let (np, ns) = (self.pick(4), self.pick(4));
        let pre = elems(self, np);
        let suf = elems(self, ns);
        let spread = self.from(&["", "…", "...", "|", "…", "|"]).to_string();
        // `[| a b]` is not an array pattern: the parser reads it as an expression (a matrix literal written with a leading bar), which the
        // formatter writes as `[a b]` — an array pattern when read back (observation in DESIGN 8.7, excluded here by construction)
        let spread = if pre.is_empty() && spread == "|" { "…".to_string() } else { spread };
        let mut parts: Vec<String> = vec![];
        if !pre.is_empty() { parts.push(pre.join(sep)); }
        if !spread.is_empty() { parts.push(spread.clone()); }
        if !suf.is_empty() && !spread.is_empty() { parts.push(suf.join(" ")); }
        format!("[{}]", parts.join(" "))
      }
      _ => self.from(&["true", "false", "_"]).to_string(),
    }
  }

  pub fn stmt(&mut self) -> String {
    let sel = self.pick(24);
    match sel {
      0 | 1 | 2 => { self.feat("define"); let (x, e) = (self.ident(), self.expr(2, 3)); let s = self.sp(); format!("{}{}:={}{}", x, s, s, e) }
      3 => { self.feat("mutable-define"); let (x, e) = (self.ident(), self.expr(2, 3)); format!("~{} := {}", x, e) }
      4 | 5 => { self.feat("typed-define"); let (x, k, e) = (self.ident(), self.kind(), self.expr(2, 3)); format!("{}{}<{}> := {}", if self.pick(3) == 0 { "~" } else { "" }, x, k, e) }
      6 => { self.feat("assign"); let (x, e) = (self.ident(), self.expr(2, 3)); format!("{} = {}", x, e) }
      7 => { self.feat("indexed-assign"); let (x, e) = (self.ident(), self.expr(1, 2)); let i = match self.pick(6) { 0 => "1".to_string(), 1 => "1,2".to_string(), 2 => ":,1".to_string(), 3 => "[1 3]".to_string(), 4 => "1..=2".to_string(), _ => self.expr(1, 2) }; format!("{}[{}] = {}", x, i, e) }
      8 => { self.feat("field-assign"); let (x, e) = (self.ident(), self.expr(1, 2)); format!("{}.{} = {}", x, self.from(&["a", "x", "name"]), e) }
      9 => { self.feat("op-assign"); let (x, e) = (self.ident(), self.expr(1, 2)); let i = match self.pick(4) { 0 => "[1]".to_string(), 1 => "[1,:]".to_string(), _ => String::new() }; format!("{}{} {} {}", x, i, self.from(&["+=", "-=", "*=", "/=", "^="]), e) }
      10 => { self.feat("tuple-destructure"); let e = self.expr(2, 3); format!("({}, {}) := {}", self.from(&["p", "q"]), self.from(&["r", "s"]), e) }
      11 | 12 => { self.feat("expression-statement"); self.expr(3, 3) }
      13 => { self.feat("enum-define"); let n = self.pick(3) + 1; let v: Vec<String> = (0..=n).map(|i| { let k = if self.pick(2) == 0 { format!("<{}>", self.from(&["u64", "string", "f64"])) } else { String::new() }; format!(":{}{}", ["red", "green", "blue", "gray"][i], k) }).collect(); format!("<{}> := {}", self.from(&["color", "shade", "result"]), v.join(" | ")) }
      14 => { self.feat("record-kind-define"); format!("<{}> := <{{a<f64>, b<{}>}}>", self.from(&["point2", "rec"]), self.from(&["f64", "u8", "string"])) }
      15 | 16 => { self.feat("function-arms"); let n = self.pick(3) + 1; let two = self.pick(2) == 0;
        let mut arms = vec![]; for i in 0..=n { let p = if two { let (a, b) = (self.pattern(1), self.pattern(1)); format!("({}, {})", a, b) } else { self.pattern(2) }; let e = self.expr(1, 2); arms.push(format!("  {} {} => {}", if i == n { "└" } else { "├" }, p, e)); }
        format!("{}({}) => <{}>\n{}.", self.from(&["f", "g", "fact", "my-fn"]), if two { "x<f64>, y<f64>" } else { "x<u64>" }, self.from(&["f64", "u64", "[f64]", "string"]), arms.join("\n")) }
      17 => { self.feat("function-statements"); let (e1, e2) = (self.expr(1, 2), self.expr(1, 2)); format!("{}(x<f64>, y<f64>) = z<f64> :=\n    a := {}\n    z := {}.", self.from(&["foo", "bar"]), e1, e2) }
      18 | 19 => { self.feat("match"); let n = self.pick(3) + 1; let src = self.expr(1, 2); let mut arms = vec![]; for _ in 0..n { let p = self.pattern(2); let g = if self.pick(3) == 0 { let c = self.expr(1, 1); format!(", {}", c) } else { String::new() }; let e = self.expr(1, 2); arms.push(format!("  | {}{} => {}", p, g, e)); }
        let d = self.expr(0, 1); format!("{} := {}?\n{}\n  | * => {}.", self.ident(), src, arms.join("\n"), d) }
      20 => { self.feat("state-machine"); let arrow = self.from(&["->", "→"]); let ng = self.pick(4) + 1;
        // 1-4 guard lines (the last one `*` or a condition), optionally a second, unguarded arm for the same state and a direct-transition state
        let mut guards = vec![];
        for i in 0..ng { let last = i + 1 == ng; let g = if last && self.pick(3) != 0 { "*".to_string() } else { self.expr(1, 1) }; let t = if self.pick(3) == 0 { let e = self.expr(0, 1); format!(":Done({})", e) } else { let e = self.expr(1, 1); format!(":A({})", e) }; guards.push(format!("    {} {} {} {}", if last { "└" } else { "├" }, g, arrow, t)); }
        if ng > 1 { self.feat("state-machine-3plus-guards"); }
        let extra = match self.pick(3) { 0 => format!("  :A(n) {} :B(n)\n  :B(m) {} :Done(m)\n", arrow, arrow), 1 => format!("  :A(n) {} :Done(n)\n", arrow), _ => String::new() };
        let decl_b = if extra.contains(":B") { "  ├ :B(m<u64>)\n" } else { "" };
        format!("#M(n<u64>) => <u64>\n  ├ :A(n<u64>)\n{}  └ :Done(out<u64>).\n\n#M(n<u64>) {} :A(n)\n  :A(n)\n{}\n{}  :Done(out) => out.", decl_b, arrow, guards.join("\n"), extra) }
      21 => { self.feat("comment"); let t = self.from(&["a comment", "x := 1; y", "see [notes](url)", "*bold* and `code`", "trailing: 100%", "émoji 😀", "a -- b"]); if self.pick(2) == 0 { let e = self.expr(1, 2); format!("{} := {} {} {}", self.ident(), e, self.from(&["--", "//"]), t) } else { format!("-- {}", t) } }
      22 => { self.feat("table-literal"); let (r, c) = (self.pick(3) + 1, self.pick(3) + 1); let ks = ["f64", "u8", "string", "bool", "i64"]; let hdr: Vec<String> = (0..c).map(|i| format!("{}<{}>", ["x", "y", "z"][i], ks[self.pick(5)])).collect();
        let multi = self.pick(2) == 0; let rows: Vec<String> = (0..r).map(|_| (0..c).map(|_| match self.pick(4) { 0 => self.string(), 1 => self.from(&["true", "false"]).to_string(), _ => self.number() }).collect::<Vec<_>>().join(" ")).collect();
        if multi { format!("{} := | {} |\n{}", self.ident(), hdr.join(" "), rows.iter().map(|r| format!("     | {} |", r)).collect::<Vec<_>>().join("\n")) } else { format!("{} := | {} | {} |", self.ident(), hdr.join(" "), rows.join(" | ")) } }
      _ => { self.feat("two-on-a-line"); let (a, b) = (self.expr(1, 2), self.expr(1, 2)); format!("{} := {}; {} := {}", self.ident(), a, self.ident(), b) }
    }
  }
}

/// a program of 1..=6 statements
pub fn program(choices: &[u32]) -> (String, Vec<&'static str>) {
  let mut g = G::new(choices);
  let mut out = vec![];
  loop { out.push(g.stmt()); if g.done() || out.len() >= 6 { break; } }
  (out.join("\n\n"), g.feats)
}

/// a single expression statement
pub fn expression(choices: &[u32]) -> (String, Vec<&'static str>) { let mut g = G::new(choices); let e = g.expr(3, 3); (e, g.feats) }

// ------------------------------------------------------------------------------------------
// Mechdown documents: block elements separated by blank lines, paragraphs made of inline elements

pub const INLINE: &[&str] = &[
  "plain words", "Some text here", "a value of 42", "ends with a period.", "**strong text**", "*emphasis*", "_underlined_", "~struck~", "!!highlighted!!", "`inline code`",
  "[a link](http://example.com/page)", "[docs](docs/index.mec)", "[text with spaces](url)", "http://example.com/raw", "https://a.b/c?d=e", "![an image](img/pic.png)", "[^1]", "[^note]", "[ref1]", "§1.2",
  "$$x^2 + y$$", "{{1 + 2}}", "{{x}}", "{x + 1}", "émoji 😀 text", "日本語 テキスト", "a \\* star", "back\\\\slash", "under\\_score", "C:\\\\dir\\\\file",
  "100% sure", "a; b; c", "x := 5 is set", "(parenthesised)", "\"quoted\"", "it's", "a -- dash", "a | bar", "1. not a list", "#hashtag", "a_b", "semi-colon;", "colon: here", "q?", "e.g. this", "<tag>",
];

impl<'a> G<'a> {
  pub fn inline(&mut self) -> String { let n = self.pick(4) + 1; (0..n).map(|_| self.from(INLINE)).collect::<Vec<_>>().join(" ") }
  pub fn block(&mut self) -> String {
    match self.pick(26) {
      0 | 1 | 2 => { self.feat("paragraph"); self.inline() }
      3 => { self.feat("paragraph-multiline"); let (a, b) = (self.inline(), self.inline()); format!("{}\n{}", a, b) }
      4 => { self.feat("subtitle"); format!("{}. {}\n{}", self.pick(9) + 1, self.from(&["Section", "Getting started", "A longer section title"]), "-".repeat(self.pick(10) + 3)) }
      5 => { self.feat("subtitle-paren"); format!("({}) {}", self.from(&["1.1", "a", "2.3.4", "B"]), self.from(&["Subsection", "Details here"])) }
      6 | 7 => { self.feat("bullet-list"); let n = self.pick(3) + 1; (0..n).map(|i| { let t = self.inline(); let ind = if i > 0 && self.pick(3) == 0 { "  " } else { "" }; format!("{}- {}", ind, t) }).collect::<Vec<_>>().join("\n") }
      8 => { self.feat("numbered-list"); let n = self.pick(3) + 1; let start = [1, 1, 3, 151][self.pick(4)]; (0..n).map(|i| { let t = self.inline(); format!("{}. {}", start + i, t) }).collect::<Vec<_>>().join("\n") }
      9 => { self.feat("check-list"); let n = self.pick(3) + 1; (0..n).map(|_| { let t = self.inline(); format!("-[{}] {}", self.from(&["x", " "]), t) }).collect::<Vec<_>>().join("\n") }
      10 => { self.feat("quote"); let t = self.inline(); format!("> {}", t) }
      11 => { self.feat("callout"); let t = self.inline(); format!("{} {}", self.from(&["(i)>", "(!)>", "(?)>", "(✓)>", "(✗)>", "(*)>", ">:"]), t) }
      12 => { self.feat("thematic-break"); self.from(&["***", "*****", "****"]).to_string() }
      13 => { self.feat("prose-table"); let c = self.pick(3) + 1; let hdr: Vec<String> = (0..c).map(|_| self.from(&["Name", "Value", "A b", "`c`"]).to_string()).collect(); let sep: Vec<&str> = (0..c).map(|_| "---").collect(); let r = self.pick(2) + 1;
        let rows: Vec<String> = (0..r).map(|_| format!("| {} |", (0..c).map(|_| self.from(&["1", "two words", "`x|y`", "**b**", "a, b"]).to_string()).collect::<Vec<_>>().join(" | "))).collect(); format!("| {} |\n|{}|\n{}", hdr.join(" | "), sep.join("|"), rows.join("\n")) }
      14 | 15 => { self.feat("code-fence"); let f = self.from(&["```", "~~~", "````"]); let lang = self.from(&["", "python", "txt", "rust", "ebnf", "mech:disabled"]); let body = self.from(&["print(1)", "x := 1\ny = 2", "a := b | c ;", "line one\n\nline three", "~~~\ninner\n~~~", "{not.mec}", "  indented", "x := ;", "a := ( b | ;", ""]); let body = if body.starts_with("~~~") && f == "~~~" { "inner" } else { body }; format!("{}{}\n{}\n{}", f, lang, body, f) }
      16 | 17 => { self.feat("mech-fence"); let name = self.from(&["", ":ns1", ":Left", ":disabled", ":ns2"]); let s = self.stmt(); format!("```mech{}\n{}\n```", name, s) }
      18 => { self.feat("equation"); format!("$$ {}", self.from(&["x = y^2", "\\frac{a}{b}", "E = mc^2"])) }
      19 => { self.feat("footnote"); let t = self.inline(); format!("[^{}]: {}", self.from(&["1", "note"]), t) }
      // (citations are not generated: the text formatter emits them as HTML — a listed known finding with a pinned example; a valid ebnf fence hits the other one)
      20 => { self.feat("paragraph"); self.inline() }
      21 => { self.feat("image"); format!("![{}]({}){}", self.from(&["caption", "", "a *b*"]), self.from(&["img.png", "a/b.svg"]), self.from(&["", "{width: \"50%\"}"])) }
      22 => { self.feat("float"); let t = self.inline(); format!("{} {}", self.from(&[">>", "<<"]), t) }
      // (stand-alone comments are written with `--` only: the formatter normalises `//` to `--`, and `- item` followed by a `--` comment does not parse)
      23 => { self.feat("comment-block"); format!("-- {}", self.from(&["a comment", "see [notes](url)", "`code` and *more*"])) }
      _ => { self.feat("code"); self.stmt() }
    }
  }
}

/// a Mechdown document: optional title, then 1..=7 blocks
pub fn document(choices: &[u32]) -> (String, Vec<&'static str>) {
  let mut g = G::new(choices);
  let mut out = vec![];
  if g.pick(3) == 0 { g.feat("title"); let t = g.from(&["A Title", "Mech in 15 minutes", "Émoji 😀 title"]); out.push(format!("{}\n{}", t, "=".repeat(t.chars().count().max(3)))); }
  loop { out.push(g.block()); if g.done() || out.len() >= 8 { break; } }
  (out.join("\n\n"), g.feats)
}
