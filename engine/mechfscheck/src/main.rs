//! C20 Source includes expand to the spliced text, and cycles are detected.
//!
//! Separate binary (same engine as mechcheck, included by path) because the include expander lives in the root `mech` crate.

#[path = "../../mechcheck/src/engine.rs"]
mod engine;

/// the two helpers engine.rs expects from its host crate
mod mech {
  pub fn panic_msg(e: Box<dyn std::any::Any + Send>) -> String {
    if let Some(s) = e.downcast_ref::<&'static str>() { s.to_string() } else if let Some(s) = e.downcast_ref::<String>() { s.clone() } else { "non-string panic".to_string() }
  }
  pub fn install_quiet_panic_hook() { std::panic::set_hook(Box::new(|_| {})); }
}

use engine::*;
use proptest::prelude::*;
use serde::{Deserialize, Serialize};
use std::collections::BTreeSet;
use std::panic::{catch_unwind, AssertUnwindSafe};
use std::path::PathBuf;

pub struct C20;

/// directories a file can live in, relative to the case root
const DIRS: [&str; 3] = ["", "p", "p/q"];
const NFILES: usize = 4;

#[derive(Clone, Debug, Serialize, Deserialize)]
pub enum FItem {
  /// ordinary line inside a fence
  Text(u8),
  /// a line that would be an include outside a fence (target file index, or >= NFILES for a missing one)
  IncludeLike(u8),
  /// fence line of the same marker that is too short to close (only generated when the opener is longer than 3)
  Shorter,
  /// fence line of the other marker (never closes)
  OtherMarker,
  /// same marker, long enough, but followed by text: not a close
  CloseWithInfo,
  /// brace expression
  Brace(u8),
}

#[derive(Clone, Debug, Serialize, Deserialize)]
pub enum Item {
  Text(u8),
  Blank,
  /// stand-alone include line: target (file index or >= NFILES: missing), leading / trailing blanks, `./` prefix
  Include { target: u8, lead: u8, trail: u8, dot: bool },
  /// brace expressions and include look-alikes that are not stand-alone include lines
  Brace(u8),
  /// code fence: marker, opener length 3..=5, indent 0..=3, info string, body, close: 0 = unclosed, 1 = same length, 2 = longer, 3 = indented close
  Fence { tilde: bool, len: u8, indent: u8, info: u8, body: Vec<FItem>, close: u8 },
  /// a line indented by four blanks that looks like a fence opener: it is not one, so what follows is still outside
  NotAFence { tilde: bool },
}

#[derive(Clone, Debug, Serialize, Deserialize)]
pub struct FileSpec { pub dir: u8, pub items: Vec<Item>, pub trailing_newline: bool }

#[derive(Clone, Debug, Serialize, Deserialize)]
pub struct Case {
  pub files: Vec<FileSpec>,
  /// when set, include targets are re-mapped to files with a larger index (missing names stay missing): the graph is a DAG, which is
  /// where repeated includes and diamonds live
  #[serde(default)]
  pub acyclic: bool,
}

/// the target an include item of file `i` denotes
fn eff(i: usize, target: u8, c: &Case) -> Option<u8> {
  let n = c.files.len();
  if !c.acyclic || (target as usize) >= n { return Some(target); }
  if i + 1 >= n { return None; }
  Some((i + 1 + (target as usize) % (n - 1 - i)) as u8)
}

fn file_rel(i: usize, c: &Case) -> String {
  let d = DIRS[c.files[i].dir as usize % DIRS.len()];
  if d.is_empty() { format!("f{}.mec", i) } else { format!("{}/f{}.mec", d, i) }
}

/// path of `target` as written inside file `from` (relative to the directory of `from`)
fn rel_path(from: usize, target: u8, dot: bool, c: &Case) -> String {
  let fd: Vec<&str> = DIRS[c.files[from].dir as usize % DIRS.len()].split('/').filter(|s| !s.is_empty()).collect();
  let (td_s, name): (String, String) = if (target as usize) < c.files.len() {
    (DIRS[c.files[target as usize].dir as usize % DIRS.len()].to_string(), format!("f{}.mec", target))
  } else {
    // missing targets: in the same directory, in a directory that does not exist, or one level up
    match target % 3 { 0 => (fd.join("/"), format!("missing{}.mec", target)), 1 => ("nodir".to_string(), format!("missing{}.mec", target)), _ => ("p".to_string(), format!("gone{}.mec", target)) }
  };
  let td: Vec<&str> = td_s.split('/').filter(|s| !s.is_empty()).collect();
  let common = fd.iter().zip(td.iter()).take_while(|(a, b)| a == b).count();
  let mut parts: Vec<String> = vec![];
  for _ in common..fd.len() { parts.push("..".into()); }
  for d in &td[common..] { parts.push(d.to_string()); }
  parts.push(name);
  let p = parts.join("/");
  if dot && !p.starts_with("..") { format!("./{}", p) } else { p }
}

fn text_line(k: u8) -> String {
  const T: [&str; 12] = ["Hello", "World", "x := 1 + 2", "Some prose with words.", "- a list item", "1. Section", "-------", "y := [1 2 3]", "> quote", "| a | b |", "z := {a: 1}", "-- comment"];
  format!("{} #{}", T[k as usize % T.len()], k)
}

fn brace_line(k: u8) -> String {
  const B: [&str; 10] = ["{1+1}", "A {1+1} and {foo/bar} B", "{foo/bar}", "see {f1.mec} here", "This is inline: `{f1.mec}` stays literal.", "{f1.mec} trailing words", "words before {f1.mec}", "{x: 1, y: 2}", "{{f1.mec}} is inline code", "{f1.mecx}"];
  B[k as usize % B.len()].to_string()
}

/// 0-3: that many spaces (as before); 4-9: runs with tabs and a carriage return (everything `str::trim` removes)
fn blanks(n: u8) -> String { match n { 0..=3 => " ".repeat(n as usize), 4 => "\t".into(), 5 => " \t".into(), 6 => "\t ".into(), 7 => "\t\t".into(), 8 => "\r".into(), 9 => " \r".into(), _ => " ".repeat(n as usize % 4) } }

/// One rendered item: its text (one or more lines, no final newline) and, if it is a stand-alone include line that is outside every fence, its target.
/// By construction: once an unclosed fence has been emitted everything after it is inside that fence, so later fences are switched to the other
/// marker (their lines can then never close it) and later include lines are plain fence content.
pub struct Rendered { pub text: String, pub include: Option<(u8, bool)> }

pub fn rendered_items(i: usize, c: &Case) -> Vec<Rendered> {
  let f = &c.files[i];
  let mut out: Vec<Rendered> = vec![];
  let mut open: Option<bool> = None; // marker (tilde?) of the unclosed fence we are inside
  for it in &f.items {
    let mut lines: Vec<String> = vec![];
    let mut include = None;
    match it {
      Item::Text(k) => lines.push(text_line(*k)),
      Item::Blank => lines.push(String::new()),
      Item::Include { target, lead, trail, dot } => match eff(i, *target, c) {
        Some(t) => { lines.push(format!("{}{{{}}}{}", blanks(*lead), rel_path(i, t, *dot, c), blanks(*trail))); if open.is_none() { include = Some((t, *dot)); } }
        None => lines.push(text_line(*target)),
      },
      Item::Brace(k) => lines.push(brace_line(*k)),
      Item::NotAFence { tilde } => lines.push(format!("    {}", if *tilde { "~~~" } else { "```" })),
      Item::Fence { tilde, len, indent, info, body, close } => {
        let tilde = match open { Some(t) => !t, None => *tilde };
        let m = if tilde { '~' } else { '`' };
        let other = if tilde { '`' } else { '~' };
        let n = 3 + (*len as usize % 3);
        let ind = " ".repeat(*indent as usize % 4);
        const INFO: [&str; 5] = ["", "mech", "mech:disabled", "python", " text"];
        lines.push(format!("{}{}{}", ind, m.to_string().repeat(n), INFO[*info as usize % INFO.len()]));
        for b in body {
          match b {
            FItem::Text(k) => lines.push(text_line(*k)),
            FItem::IncludeLike(t) => lines.push(format!("{{{}}}", rel_path(i, *t, false, c))), // may point anywhere, also backwards: it must stay literal
            FItem::Shorter => { if n > 3 { lines.push(m.to_string().repeat(n - 1)); } else { lines.push(format!("{}{}", m, m)); } }
            // inside an outer unclosed fence the "other" marker would be the outer one: use a harmless line instead
            FItem::OtherMarker => { if open.is_some() { lines.push(format!("{}{}", other, other)); } else { lines.push(other.to_string().repeat(n + 1)); } }
            FItem::CloseWithInfo => lines.push(format!("{} not a close", m.to_string().repeat(n))),
            FItem::Brace(k) => lines.push(brace_line(*k)),
          }
        }
        match close % 4 { 0 => { if open.is_none() { open = Some(tilde); } }, 1 => lines.push(m.to_string().repeat(n)), 2 => lines.push(format!("{}  ", m.to_string().repeat(n + 2))), _ => lines.push(format!("   {}", m.to_string().repeat(n))) }
      }
    }
    out.push(Rendered { text: lines.join("\n"), include });
  }
  out
}

/// the file as written to disk
pub fn file_text(i: usize, c: &Case) -> String {
  let f = &c.files[i];
  let items = rendered_items(i, c);
  let mut s = items.iter().map(|r| r.text.clone()).collect::<Vec<_>>().join("\n");
  if f.trailing_newline && !items.is_empty() { s.push('\n'); }
  s
}

// ------------------------------------------------------------------------------------------------
// reference expander, written from the property statement and docs/mechdown/include.mec: it works on the *specification* of the
// case (the item list), not on the text, so it shares no line/fence scanning code with the implementation

#[derive(Clone, Debug, PartialEq)]
pub enum RefErr { Circular, Missing(String) }

pub struct RefResult {
  pub out: Result<String, RefErr>,
  /// facts about the reachable include graph
  pub has_cycle: bool,
  pub missing: BTreeSet<String>,
  pub edges_followed: usize,
  pub repeated: bool,
  pub max_depth: usize,
}

fn outside_includes(i: usize, c: &Case) -> Vec<(u8, bool)> {
  rendered_items(i, c).iter().filter_map(|r| r.include).collect()
}

fn reference_expand(i: usize, c: &Case, stack: &mut Vec<usize>, st: &mut (usize, BTreeSet<usize>, bool, usize)) -> Result<String, RefErr> {
  if stack.contains(&i) { return Err(RefErr::Circular); }
  stack.push(i);
  st.3 = st.3.max(stack.len());
  if !st.1.insert(i) { st.2 = true; }
  // the text of this file, with every include line that is outside fences replaced by the expansion of its target
  let f = &c.files[i];
  let mut pieces: Vec<String> = vec![];
  for r in rendered_items(i, c) {
    match r.include {
      Some((target, dot)) => {
        if (target as usize) >= c.files.len() { return Err(RefErr::Missing(rel_path(i, target, dot, c))); }
        st.0 += 1;
        pieces.push(reference_expand(target as usize, c, stack, st)?);
      }
      None => pieces.push(r.text),
    }
  }
  stack.pop();
  let mut s = pieces.join("\n");
  if f.trailing_newline && !f.items.is_empty() { s.push('\n'); }
  Ok(s)
}

fn graph_facts(c: &Case) -> (bool, BTreeSet<String>) {
  // reachable graph from file 0 over outside-fence includes
  let n = c.files.len();
  let mut reach = vec![false; n];
  let mut stack = vec![0usize];
  let mut missing = BTreeSet::new();
  while let Some(i) = stack.pop() {
    if reach[i] { continue; }
    reach[i] = true;
    for (t, dot) in outside_includes(i, c) {
      if (t as usize) < n { stack.push(t as usize); } else { missing.insert(rel_path(i, t, dot, c)); }
    }
  }
  // cycle among reachable nodes (colours)
  fn dfs(i: usize, c: &Case, col: &mut Vec<u8>) -> bool {
    col[i] = 1;
    for (t, _) in outside_includes(i, c) { let t = t as usize; if t >= c.files.len() { continue; } if col[t] == 1 { return true; } if col[t] == 0 && dfs(t, c, col) { return true; } }
    col[i] = 2;
    false
  }
  let mut col = vec![0u8; n];
  (dfs(0, c, &mut col), missing)
}

pub fn reference(c: &Case) -> RefResult {
  let mut st = (0usize, BTreeSet::new(), false, 0usize);
  let out = reference_expand(0, c, &mut vec![], &mut st);
  let (has_cycle, missing) = graph_facts(c);
  RefResult { out, has_cycle, missing, edges_followed: st.0, repeated: st.2, max_depth: st.3 }
}

// ------------------------------------------------------------------------------------------------

fn case_dir() -> PathBuf {
  static N: std::sync::atomic::AtomicU64 = std::sync::atomic::AtomicU64::new(0);
  let n = N.fetch_add(1, std::sync::atomic::Ordering::Relaxed);
  PathBuf::from(format!("{}/target/tmp/c20/{}-{}", verif_dir(), std::process::id(), n))
}

fn materialise(c: &Case) -> std::io::Result<PathBuf> {
  let root = case_dir();
  let _ = std::fs::remove_dir_all(&root);
  for d in DIRS { std::fs::create_dir_all(root.join(d))?; }
  for i in 0..c.files.len() { std::fs::write(root.join(file_rel(i, c)), file_text(i, c))?; }
  Ok(root)
}

fn shape(c: &Case, r: &RefResult) -> String {
  let mut edges: Vec<String> = vec![];
  for i in 0..c.files.len() { for (t, _) in outside_includes(i, c) { edges.push(format!("{}>{}", i, if (t as usize) < c.files.len() { t.to_string() } else { "x".into() })); } }
  edges.sort();
  let dirs: Vec<String> = c.files.iter().map(|f| (f.dir as usize % DIRS.len()).to_string()).collect();
  let fences: usize = c.files.iter().map(|f| f.items.iter().filter(|it| matches!(it, Item::Fence { .. })).count()).sum();
  format!("edges[{}] dirs[{}] cyc={} miss={} rep={} fences={}", edges.join(","), dirs.join(""), r.has_cycle, r.missing.len(), r.repeated, fences.min(3))
}

impl Prop for C20 {
  type Case = Case;
  const ID: &'static str = "C20";
  fn budget(t: Tier) -> u32 { t.pick(60_000, 1_500_000) }
  fn timeout_ms(_t: Tier) -> u64 { 10_000 }
  fn timeout_is_violation() -> bool { true }
  fn strategy(_t: Tier, _k: &Known) -> BoxedStrategy<Case> {
    let fitem = prop_oneof![3 => any::<u8>().prop_map(FItem::Text), 3 => (0u8..6).prop_map(FItem::IncludeLike), 1 => Just(FItem::Shorter), 1 => Just(FItem::OtherMarker), 1 => Just(FItem::CloseWithInfo), 1 => any::<u8>().prop_map(FItem::Brace)];
    let item = prop_oneof![
      4 => any::<u8>().prop_map(Item::Text),
      1 => Just(Item::Blank),
      6 => (prop_oneof![8 => 0u8..NFILES as u8, 1 => NFILES as u8..NFILES as u8 + 6], 0u8..8, 0u8..10, any::<bool>()).prop_map(|(target, lead, trail, dot)| Item::Include { target, lead, trail, dot: dot && lead % 2 == 0 }),
      2 => any::<u8>().prop_map(Item::Brace),
      3 => (any::<bool>(), 0u8..3, 0u8..4, 0u8..5, proptest::collection::vec(fitem, 0..4), prop_oneof![1 => Just(0u8), 3 => Just(1u8), 1 => Just(2u8), 1 => Just(3u8)]).prop_map(|(tilde, len, indent, info, body, close)| Item::Fence { tilde, len, indent, info, body, close }),
      1 => any::<bool>().prop_map(|tilde| Item::NotAFence { tilde }),
    ];
    let file = (0u8..3, proptest::collection::vec(item, 0..6), any::<bool>()).prop_map(|(dir, items, trailing_newline)| FileSpec { dir, items, trailing_newline });
    (proptest::collection::vec(file, NFILES..=NFILES), prop_oneof![2 => Just(true), 1 => Just(false)]).prop_map(|(files, acyclic)| Case { files, acyclic }).boxed()
  }
  fn fixed_cases(_t: Tier) -> Vec<Case> {
    // every subset of include edges over 4 files (2^16 graphs is too many for the quick tier: all graphs over 3 files = 2^9, each file = its includes
    // in index order between two text lines; plus the same with the included files ending in a closed fence)
    let mut out = vec![];
    for variant in 0..3u8 {
      for mask in 0u32..512 {
        let mut files = vec![];
        for i in 0..3usize {
          let mut items = vec![Item::Text(i as u8)];
          for t in 0..3usize { if mask & (1 << (i * 3 + t)) != 0 { items.push(Item::Include { target: t as u8, lead: 0, trail: 0, dot: false }); } }
          match variant {
            0 => items.push(Item::Text(10 + i as u8)),
            1 => items.push(Item::Fence { tilde: i % 2 == 1, len: 0, indent: 0, info: 1, body: vec![FItem::IncludeLike(0)], close: 1 }),
            _ => {}
          }
          files.push(FileSpec { dir: (i % 3) as u8, items, trailing_newline: variant != 2 || i == 0 });
        }
        files.push(FileSpec { dir: 0, items: vec![], trailing_newline: false });
        out.push(Case { files, acyclic: false });
      }
    }
    out
  }
  fn exhaustive_note(_t: Tier) -> Option<String> { None }
  fn rule() -> &'static str {
    "case = 4 files in up to 3 directories (., p, p/q), each a list of up to 6 items: text lines, blank lines, stand-alone include lines (target = any of the 4 files incl. itself, or a missing name; \
     0-3 leading/trailing blanks, or runs with tabs / a carriage return; optional ./ prefix; path written relative to the including file, with ../ where needed), brace expressions and include look-alikes that are not stand-alone, \
     backtick/tilde fences (opener length 3-5, indent 0-3, info string, body with include-like lines, shorter fence lines, other-marker lines, closers followed by text; closed with the same length, \
     longer, indented, or left unclosed), 4-blank-indented pseudo fences; with/without trailing newline. Fixed cases: all 512 include graphs over 3 files x 3 file-ending variants (text, closed fence, no trailing newline). \
     Oracle: a reference expander working on the item lists (not on text): Ok(text) must equal byte for byte; if only a cycle is reachable the error must say `Circular include detected`; if only missing \
     targets are reachable the error must be `Include failed: <path as written>` for one of them; with both, either. Each call runs under the 10 s watchdog (a hang is a violation). \
     Non-trivial = at least one include edge is followed and the case has a repeated include, a cycle, a missing target, a fence containing an include-like line, or files in different directories; \
     distinct key = sorted edge list + directories + (cycle, missing, repeated)."
  }
  fn assumptions() -> Vec<String> { vec![
    "lines end in \\n; CR LF include lines are not generated (the statement does not say whether the CR belongs to the replaced line)".into(),
    "several braces on one line, or braces with other text, are generated only as look-alikes that must stay literal when they do not both start with { and end with } after trimming".into(),
    "fence rules are the CommonMark ones the code documents: opener = up to 3 blanks + at least 3 of one marker; closer = same marker, at least as long, only blanks after".into(),
  ] }
  fn describe(c: &Case) -> String {
    let mut s = String::new();
    for i in 0..c.files.len() { let t = file_text(i, c); if i == 0 || !t.is_empty() { s.push_str(&format!("== {} ==\n{}\n", file_rel(i, c), t)); } }
    s.chars().take(1500).collect()
  }
  fn crash_sig(_c: &Case, what: &str) -> String { format!("C20|{}", what) }
  fn check(c: &Case, _cx: &Cx) -> Verdict {
    let mut v = Verdict::new();
    if c.files.len() != NFILES { v.discard("malformed case"); return v; }
    let r = reference(c);
    let root = match materialise(c) { Ok(p) => p, Err(e) => { v.harness(format!("cannot write case files: {}", e)); return v; } };
    let main = root.join(file_rel(0, c));
    let got = catch_unwind(AssertUnwindSafe(|| ::mech::read_mech_source_file(&main)));
    let _ = std::fs::remove_dir_all(&root);
    // labels
    v.label(format!("edges-followed:{}", match r.edges_followed { 0 => "0", 1 => "1", 2..=3 => "2-3", _ => ">3" }));
    if r.repeated { v.label("repeated-include"); }
    if r.has_cycle { v.label("cycle"); }
    if !r.missing.is_empty() { v.label("missing-target"); }
    v.label(format!("depth:{}", r.max_depth.min(5)));
    let fence_with_include = c.files.iter().any(|f| f.items.iter().any(|it| matches!(it, Item::Fence { body, .. } if body.iter().any(|b| matches!(b, FItem::IncludeLike(_))))));
    if fence_with_include { v.label("fence-with-include-like-line"); }
    if c.files.iter().any(|f| f.items.iter().any(|it| matches!(it, Item::Fence { close, .. } if close % 4 == 0))) { v.label("unclosed-fence"); }
    let dirs_differ = c.files.iter().any(|f| f.dir % 3 != c.files[0].dir % 3);
    if r.edges_followed > 0 && (r.repeated || r.has_cycle || !r.missing.is_empty() || fence_with_include || dirs_differ) { v.key = Some(shape(c, &r)); }
    let got = match got { Ok(g) => g, Err(e) => { v.fail("C20|panic", format!("read_mech_source_file panicked: {}", mech::panic_msg(e))); return v; } };
    let expect_desc = match &r.out { Ok(_) => "Ok".to_string(), Err(e) => format!("{:?}", e) };
    match got {
      Ok(::mech::MechSourceCode::String(s)) => {
        if r.has_cycle && r.missing.is_empty() { v.fail("C20|cycle-not-detected", format!("the include graph has a cycle but loading succeeded with {:?}", s.chars().take(300).collect::<String>())); return v; }
        if !r.has_cycle && !r.missing.is_empty() { v.fail("C20|missing-not-reported", format!("a missing include target ({:?}) is reachable but loading succeeded", r.missing)); return v; }
        match &r.out {
          Ok(want) => { if &s != want { v.fail("C20|wrong-expansion", format!("expanded text differs from the textual substitution\n--- got ---\n{}\n--- want ---\n{}", s, want)); } else { v.label("outcome:expanded"); } }
          Err(e) => v.fail("C20|error-expected", format!("reference expects {:?} but loading succeeded", e)),
        }
      }
      Ok(_) => v.fail("C20|wrong-source-kind", "read_mech_source_file(.mec) did not return MechSourceCode::String"),
      Err(e) => {
        let msg = e.kind_message();
        let circ = msg.contains("Circular include detected");
        let miss: Option<&String> = r.missing.iter().find(|m| msg.contains(&format!("Include failed: {}", m)));
        if !r.has_cycle && r.missing.is_empty() { v.fail(if circ { "C20|false-circular" } else { "C20|false-error" }, format!("acyclic include graph without missing targets, but loading failed: {} (reference: {})", msg, expect_desc)); return v; }
        if circ { if r.has_cycle { v.label("outcome:circular-error"); } else { v.fail("C20|false-circular", format!("no cycle is reachable (missing targets: {:?}) but the error is: {}", r.missing, msg)); } }
        else if miss.is_some() { v.label("outcome:missing-error"); }
        else if !r.missing.is_empty() && msg.contains("Include failed") { v.fail("C20|missing-misnamed", format!("include error does not name a missing target as written ({:?}): {}", r.missing, msg)); }
        else { v.fail("C20|wrong-error", format!("expected {} but the error is: {}", expect_desc, msg)); }
      }
    }
    v
  }
}

fn arg(args: &[String], name: &str) -> Option<String> { args.iter().position(|a| a == name).and_then(|i| args.get(i + 1).cloned()) }

fn main() {
  let args: Vec<String> = std::env::args().collect();
  match args.get(1).map(|s| s.as_str()).unwrap_or("") {
    "run" => {
      let tier = match arg(&args, "--tier").or_else(|| std::env::var("VERIF_TIER").ok()).as_deref() { Some("thorough") => Tier::Thorough, _ => Tier::Quick };
      let seed: u64 = arg(&args, "--seed").or_else(|| std::env::var("VERIF_SEED").ok()).and_then(|s| s.parse::<i64>().ok()).map(|s| s as u64).unwrap_or(0);
      let workers: u32 = arg(&args, "--workers").and_then(|s| s.parse().ok()).unwrap_or(16);
      std::process::exit(supervisor_main::<C20>(RunOpts { tier, seed, workers }));
    }
    "worker" => {
      let tier = match arg(&args, "--tier").as_deref() { Some("thorough") => Tier::Thorough, _ => Tier::Quick };
      let g = |n: &str| arg(&args, n).and_then(|s| s.parse::<u64>().ok()).unwrap_or(0);
      let mut replays = vec![];
      for (i, a) in args.iter().enumerate() { if a == "--replay-file" { if let Some(p) = args.get(i + 1) { replays.push(p.clone()); } } }
      worker_main::<C20>(WorkerArgs { tier, seed: g("--seed"), index: g("--index") as u32, of: g("--of").max(1) as u32, skip_fixed: g("--skip-fixed") as u32, skip_rand: g("--skip-rand") as u32, replays, skip_replays: g("--skip-replays") as u32, skip_pins: g("--skip-pins") as u32 });
    }
    "replay" => std::process::exit(replay_main::<C20>(&args[2])),
    "show" => {
      // print the files of a replay
      let j: serde_json::Value = serde_json::from_str(&std::fs::read_to_string(&args[2]).expect("read")).expect("json");
      let c: Case = serde_json::from_value(j["case"].clone()).expect("case");
      println!("{}", C20::describe(&c));
      let r = reference(&c);
      println!("reference: {:?}", r.out);
    }
    _ => { eprintln!("usage: mechfscheck run|worker|replay"); std::process::exit(3); }
  }
}
