#![no_main]
//! C08 oracle inside a libFuzzer target (code only: the prose emitters have listed known findings): text that parses as code without
//! recovery placeholders must survive parse -> format -> parse with an equal tree (source ranges and whitespace tokens erased), and format
//! must be idempotent.
use libfuzzer_sys::fuzz_target;
use mech_syntax::formatter::Formatter;
use mech_syntax::parser;
use serde_json::Value as J;

fn canon(j: &J) -> J {
  match j {
    J::Object(m) => {
      let mut o = serde_json::Map::new();
      for (k, v) in m { if k == "src_range" { continue; } o.insert(k.clone(), canon(v)); }
      J::Object(o)
    }
    J::Array(a) => J::Array(a.iter().filter(|v| !is_ws_token(v)).map(canon).collect()),
    other => other.clone(),
  }
}
fn is_ws_token(v: &J) -> bool { v.get("kind").and_then(|k| k.as_str()).map(|k| matches!(k, "Space" | "Tab" | "Newline" | "CarriageReturn")).unwrap_or(false) }
fn has(j: &J, key: &str) -> bool { match j { J::Object(m) => m.iter().any(|(k, v)| k == key || has(v, key)), J::Array(a) => a.iter().any(|v| has(v, key)), _ => false } }

fuzz_target!(|data: &[u8]| {
  if data.len() > 1024 { return; }
  let Ok(text) = std::str::from_utf8(data) else { return };
  let mut depth = 0i32; let mut max = 0i32;
  for ch in text.chars() { match ch { '(' | '[' | '{' | '<' => { depth += 1; max = max.max(depth); } ')' | ']' | '}' | '>' => { if depth > 0 { depth -= 1; } } _ => {} } }
  if max > 4 { return; }
  let Ok(t1) = parser::parse(text) else { return };
  // domain: code only (every section element is MechCode), no title, no recovery placeholders
  if t1.title.is_some() { return; }
  for s in &t1.body.sections { if s.subtitle.is_some() { return; } for e in &s.elements { if !matches!(e, mech_core::SectionElement::MechCode(_)) { return; } } }
  let j1 = serde_json::to_value(&t1).unwrap();
  if has(&j1, "Error") || has(&j1, "Comment") || has(&j1, "FsmSpecification") || has(&j1, "FsmImplementation") { return; }
  let f1 = Formatter::new().format(&t1);
  let t2 = match parser::parse(&f1) { Ok(t) => t, Err(_) => panic!("C08 reparse: formatted text does not parse: {:?} -> {:?}", text, f1) };
  let j2 = serde_json::to_value(&t2).unwrap();
  assert!(canon(&j1) == canon(&j2), "C08 tree-diff: {:?} -> {:?}", text, f1);
  let f2 = Formatter::new().format(&t2);
  assert!(f1 == f2, "C08 not idempotent: {:?} -> {:?} -> {:?}", text, f1, f2);
});
