#![no_main]
//! C07 oracle behind the checksum gate: the last four bytes are overwritten with the CRC-32 of the rest, so mutations reach header,
//! section table and constant decoding.
use libfuzzer_sys::fuzz_target;
use mech_core::*;

fuzz_target!(|data: &[u8]| {
  if data.len() < 8 { return; }
  let mut b = data.to_vec();
  let n = b.len() - 4;
  let crc = crc32fast::hash(&b[..n]);
  b[n..].copy_from_slice(&crc.to_le_bytes());
  if let Ok(p) = ParsedProgram::from_bytes(&b) {
    let _ = p.decode_const_entries();
    let _ = p.validate();
    let _ = p.to_bytes();
  }
});
