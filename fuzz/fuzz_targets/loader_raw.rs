#![no_main]
//! C07 totality on raw bytes: from_bytes, and on Ok the constant decoder, validate and re-encode, return without a panic reaching the caller.
use libfuzzer_sys::fuzz_target;
use mech_core::*;

/// libfuzzer-sys aborts on ANY panic, also one the code under test catches itself and turns into an error; the property speaks about what
/// the caller sees, so the hook is silenced once and only a panic that escapes the API call aborts the process
fn escaped<F: FnOnce() + std::panic::UnwindSafe>(f: F) {
  static ONCE: std::sync::Once = std::sync::Once::new();
  ONCE.call_once(|| std::panic::set_hook(Box::new(|_| {})));
  if let Err(e) = std::panic::catch_unwind(f) {
    let msg = e.downcast_ref::<String>().cloned().or_else(|| e.downcast_ref::<&str>().map(|s| s.to_string())).unwrap_or_default();
    eprintln!("panic escaped: {}", msg);
    std::process::abort();
  }
}

fuzz_target!(|data: &[u8]| {
  let b = data.to_vec();
  escaped(move || {
    if let Ok(p) = ParsedProgram::from_bytes(&b) {
      let _ = p.decode_const_entries();
      let _ = p.validate();
      let _ = p.to_bytes();
    }
  });
});
