#![no_main]
//! C07 oracle: arbitrary bytes -> Ok or Err, never a panic / hang / unbounded allocation; an accepted image re-encodes.
use libfuzzer_sys::fuzz_target;
use mech_core::*;

fuzz_target!(|data: &[u8]| {
  if let Ok(p) = ParsedProgram::from_bytes(data) {
    let _ = p.decode_const_entries();
    let _ = p.validate();
    let _ = p.to_bytes();
  }
});
