#![no_main]
//! C09 oracle inside a libFuzzer target: any UTF-8 text -> tree or located report, never a panic; report ranges inside the input;
//! format_error total; identical outcome on a second parse.
use libfuzzer_sys::fuzz_target;
use mech_syntax::{graphemes, parser, ParserErrorReport, TextFormatter};

fn bounds(text: &str) -> Vec<usize> {
  let g = graphemes::init_source(text);
  let mut line_len = vec![];
  let mut cur = 0usize;
  for x in g.iter() { cur += 1; if graphemes::is_new_line(x) { line_len.push(cur); cur = 0; } }
  if cur > 0 { line_len.push(cur); }
  line_len
}

fuzz_target!(|data: &[u8]| {
  if data.len() > 4096 { return; }
  let text = String::from_utf8_lossy(data).to_string();
  // nesting deeper than 4 is exponential in time (documented observation, not judged)
  let mut depth = 0i32; let mut max = 0i32;
  for ch in text.chars() { match ch { '(' | '[' | '{' | '<' => { depth += 1; max = max.max(depth); } ')' | ']' | '}' | '>' => { if depth > 0 { depth -= 1; } } _ => {} } }
  if max > 4 { return; }
  let a = parser::parse(&text);
  let b = parser::parse(&text);
  match (&a, &b) {
    (Ok(x), Ok(y)) => assert!(x == y, "C09 nondeterministic tree"),
    (Err(x), Err(y)) => {
      let (rx, ry) = (x.kind_as::<ParserErrorReport>().expect("C09 error without report"), y.kind_as::<ParserErrorReport>().expect("report"));
      assert!(rx == ry, "C09 nondeterministic report");
      assert!(rx.0 == text && !rx.1.is_empty(), "C09 report text/empty");
      let ll = bounds(&text);
      let inside = |row: usize, col: usize| row >= 1 && row <= ll.len() && col >= 1 && col <= ll[row - 1] + 1;
      for ctx in &rx.1 {
        let mut all = vec![&ctx.cause_rng];
        all.extend(ctx.annotation_rngs.iter());
        for r in all {
          assert!(!(r.start.row == 0 && r.start.col == 0 && r.end.row == 0 && r.end.col == 0), "C09 range-uninitialised: {}", ctx.err_message);
          assert!(inside(r.start.row, r.start.col) && inside(r.end.row, r.end.col), "C09 range-outside {:?}: {}", r, ctx.err_message);
          assert!((r.start.row, r.start.col) <= (r.end.row, r.end.col), "C09 range-reversed {:?}", r);
        }
      }
      let _ = TextFormatter::new(&text).format_error(rx);
    }
    _ => panic!("C09 nondeterministic outcome"),
  }
});
