#!/bin/bash
# confirm_batch.sh <tag> <Cxx>... : confirms the delivered seeds one after another, each in its own scratch worktree, which is removed afterwards
tag=$1; shift
for p in "$@"; do WT=/tmp/wt-$p-$tag REMOVE=1 /verif/tools/confirm_seed.sh $p /tmp/seed-out/$p-$tag; done
