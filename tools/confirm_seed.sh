#!/bin/bash
# confirm_seed.sh <Cxx> <seed-dir> : independently confirms a seeded change in a scratch worktree ($WT, default /tmp/wt-confirm;
# created from /repo HEAD with a warm build cache copied from /tmp/wt-base if it does not exist):
#   demo passes on the unmodified tree, fails with the patch; the existing suite passes with the patch.
# Writes <seed-dir>/confirm.log and prints a one-line summary. REMOVE=1 removes the worktree afterwards.
id="$1"; dir="$2"; wt=${WT:-/tmp/wt-confirm}
export RUSTC_BOOTSTRAP=1 CARGO_NET_OFFLINE=true
log="$dir/confirm.log"; : > "$log"
if [ ! -d $wt ]; then git -C /repo worktree add -q --detach $wt HEAD; fi
if [ ! -d $wt/target ]; then cp -r /tmp/wt-base/target $wt/target; fi
cd $wt && git checkout -q -- . && git clean -qfd -e target && git checkout -q --detach "$(git -C /repo rev-parse HEAD)"
# (after the checkout, which reverts the file even though it is flagged assume-unchanged)
cp /tmp/wt-base/.cargo/config.toml $wt/.cargo/config.toml; git -C $wt update-index --assume-unchanged .cargo/config.toml
cp "$dir/demo.rs" tests/seed_demo.rs
echo "== demo on unmodified tree" >> "$log"
timeout 3000 cargo test --offline --test seed_demo >> "$log" 2>&1; base=$?
git apply "$dir/patch.diff" >> "$log" 2>&1 || { echo "$id: patch does not apply"; exit 1; }
echo "== demo with patch" >> "$log"
timeout 3000 cargo test --offline --test seed_demo >> "$log" 2>&1; withp=$?
rm -f tests/seed_demo.rs
echo "== existing suite with patch" >> "$log"
timeout 3000 cargo test --workspace --no-fail-fast --offline >> "$log" 2>&1; suite=$?
git checkout -q -- . ; cp /tmp/wt-base/.cargo/config.toml $wt/.cargo/config.toml
echo "$id: demo_unmodified_exit=$base demo_patched_exit=$withp suite_patched_exit=$suite" | tee -a "$log"
if [ "${REMOVE:-0}" = 1 ]; then cd /; git -C /repo worktree remove --force $wt; fi
