#!/bin/bash
# confirm_seed.sh <id> <seed-dir>: independently confirms a seeded fault in a scratch worktree:
#   demo passes on the unmodified tree, fails with the patch; the existing suite passes with the patch.
# Writes <seed-dir>/confirm.log and prints a one-line summary.
id="$1"; dir="$2"; wt=${WT:-/tmp/wt-confirm}   # WT=<existing scratch worktree> reuses its warm build cache
export RUSTC_BOOTSTRAP=1 CARGO_NET_OFFLINE=true
log="$dir/confirm.log"; : > "$log"
if [ ! -d $wt ]; then git -C /repo worktree add -q --detach $wt HEAD && cp -r /tmp/target-base $wt/target; fi
cd $wt && git checkout -q -- . && git clean -qfd -e target && git checkout -q --detach "$(git -C /repo rev-parse HEAD)"
cp "$dir/demo.rs" tests/seed_demo.rs
echo "== demo on unmodified tree" >> "$log"
cargo test --offline --test seed_demo >> "$log" 2>&1; base=$?
git apply "$dir/patch.diff" >> "$log" 2>&1 || { echo "$id: patch does not apply"; exit 1; }
echo "== demo with patch" >> "$log"
cargo test --offline --test seed_demo >> "$log" 2>&1; withp=$?
rm -f tests/seed_demo.rs
echo "== existing suite with patch" >> "$log"
cargo test --workspace --no-fail-fast --offline >> "$log" 2>&1; suite=$?
fails=$(grep -E "^test result: FAILED|failed;" "$log" | tail -3 | tr '\n' ' ')
git checkout -q -- .
echo "$id: demo_unmodified_exit=$base demo_patched_exit=$withp suite_patched_exit=$suite" | tee -a "$log"
