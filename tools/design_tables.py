#!/usr/bin/env python3
"""Regenerates the generated tables of DESIGN.md (between <!-- BEGIN:x --> / <!-- END:x --> markers) from known_findings.json and seeded/*/meta.json."""
import json, os, re, glob
k = json.load(open('/verif/known_findings.json'))
def esc(s): return s.replace('|', '\\|').replace('\n', ' ')
fixed = [e for e in k if e['status'].startswith('fixed')]
known = [e for e in k if e['status'] == 'known']
t_fixed = ['| property | commit | what failed |', '|---|---|---|'] + ['| %s | %s | %s |' % (e['property'], e['status'].split(':')[1], esc(e['what_fails'])) for e in sorted(fixed, key=lambda e: e['property'])]
t_known = ['| property | signature | what fails |', '|---|---|---|'] + ['| %s | `%s` | %s |' % (e['property'], esc(e['signature']), esc(e['what_fails'])) for e in sorted(known, key=lambda e: e['property'])]
rows = []
for d in sorted(glob.glob('/verif/seeded/*')):
    m = json.load(open(d + '/meta.json'))
    rows.append('| %s | %s | %s | %s |' % (os.path.basename(d), m['property'], esc(m['needs_to_manifest']), esc(m['caught_by'])))
t_seeds = ['| seeded change | property | needs, to manifest | caught by |', '|---|---|---|---|'] + rows
tables = {'FIXED': t_fixed, 'KNOWN': t_known, 'SEEDS': t_seeds}
p = '/verif/DESIGN.md'
s = open(p).read()
for name, t in tables.items():
    pat = re.compile(r'(<!-- BEGIN:%s -->\n).*?(<!-- END:%s -->)' % (name, name), re.S)
    assert pat.search(s), name
    s = pat.sub(lambda m: m.group(1) + '\n'.join(t) + '\n' + m.group(2), s)
open(p, 'w').write(s)
print('tables:', {n: len(t) - 2 for n, t in tables.items()})
