#!/usr/bin/env python3
"""CRLF-preserving exact-string edit: ed.py <file> <old-file> <new-file> [count]"""
import sys
p, oldf, newf = sys.argv[1:4]
cnt = int(sys.argv[4]) if len(sys.argv) > 4 else 1
s = open(p, 'rb').read().decode('utf-8')
nl = '\r\n' if '\r\n' in s else '\n'
old = open(oldf).read().replace('\r\n', '\n').replace('\n', nl)
new = open(newf).read().replace('\r\n', '\n').replace('\n', nl)
n = s.count(old)
if n != cnt:
    sys.exit("expected %d occurrence(s) of old text, found %d" % (cnt, n))
open(p, 'wb').write(s.replace(old, new).encode('utf-8'))
print("edited", p, n, "occurrence(s)")
