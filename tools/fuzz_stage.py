#!/usr/bin/env python3
"""fuzz_stage.py <Cxx> <target> <seconds> [--seed N]
Coverage-guided stage of the thorough tier (libFuzzer through cargo-fuzz, nightly toolchain):
  1. builds /verif/fuzz target <target> against /repo's working tree (path dependencies);
  2. seeds a fresh work corpus from `mechcheck emitcorpus` (suite snippets, repository .mec files, grammar constructs, emitted images);
  3. runs libFuzzer in fork mode on all cores for <seconds> (crashes / timeouts / ooms are collected, the campaign continues);
  4. every artifact is turned into a replay case of property <Cxx> and DECIDED by the stable harness (`mechcheck replay`), i.e. by the same
     oracle and the same known-findings file as the generated cases: exit 1 + VIOLATION line for an unlisted violation, KNOWN-FINDING line for
     a listed one; an artifact the stable harness does not reproduce is reported as `not reproduced` and makes the stage inconclusive (exit 2);
  5. merges the campaign's numbers into /verif/evidence/<Cxx>.json under coverage.fuzz.
Exit code: 0 silent, 1 violation, 2 inconclusive (build failure of the fuzz crate, unreproduced artifact)."""
import sys, os, subprocess, json, glob, shutil, re, hashlib, time

V = os.environ.get('VERIF_DIR', '/verif')
prop, target, seconds = sys.argv[1], sys.argv[2], int(sys.argv[3])
seed = int(os.environ.get('VERIF_SEED', '0') or 0)
env = dict(os.environ, CARGO_NET_OFFLINE='true', CARGO_TARGET_DIR=f'{V}/target/fuzz')
t0 = time.time()

def note_evidence(extra):
    p = f'{V}/evidence/{prop}.json'
    try:
        ev = json.load(open(p))
    except Exception:
        return
    ev.setdefault('coverage', {}).setdefault('fuzz', {})[target] = extra
    json.dump(ev, open(p, 'w'), indent=2, ensure_ascii=False)

b = subprocess.run(['cargo', '+nightly', 'fuzz', 'build', '-s', 'none', '--fuzz-dir', f'{V}/fuzz', target], env=env, capture_output=True, text=True)
if b.returncode != 0:
    print(f'INCONCLUSIVE: fuzz target {target} does not build (nightly toolchain): {b.stderr[-400:]}')
    note_evidence({'built': False})
    sys.exit(2)

corpus = f'{V}/target/fuzz-corpus'
if not os.path.isdir(corpus + '/text'):
    subprocess.run([f'{V}/target/debug/mechcheck', 'emitcorpus', corpus], env=dict(env, VERIF_DIR=V), capture_output=True)
kind = 'images' if target.startswith('loader') else 'text'
work = f'{V}/target/fuzz-work/{target}'
arts = f'{V}/target/fuzz-artifacts/{target}/'
for d in (work, arts):
    shutil.rmtree(d, ignore_errors=True); os.makedirs(d)
nseeds = 0
for f in glob.glob(f'{corpus}/{kind}/*'):
    if kind == 'text' and os.path.getsize(f) > 600: continue   # the parser handles ~200 short inputs/s: large seeds starve the campaign
    shutil.copy(f, work); nseeds += 1

ncpu = os.cpu_count() or 4
maxlen = 8192 if kind == 'images' else 512
logdir = f'{V}/target/fuzz-logs/{target}'
shutil.rmtree(logdir, ignore_errors=True); os.makedirs(logdir)
# -jobs/-workers: <ncpu> independent libFuzzer processes share the work corpus (a job ends at its first crash); each writes fuzz-<n>.log
# into the log directory. No sanitizer: the targets are safe Rust and the properties are about panics, oracles and budgets, and the
# parser is slow enough that ASan would halve an already small execution count
cmd = ['cargo', '+nightly', 'fuzz', 'run', '-s', 'none', '--fuzz-dir', f'{V}/fuzz', target, work, '--',
       f'-max_total_time={seconds}', f'-jobs={ncpu}', f'-workers={ncpu}', f'-artifact_prefix={arts}', '-timeout=20', '-rss_limit_mb=2048', '-malloc_limit_mb=1024',
       f'-max_len={maxlen}', '-len_control=0', f'-seed={seed + 1}', '-print_final_stats=1', '-detect_leaks=0', '-reload=1']
deadline = seconds + 150   # (a libFuzzer process occasionally deadlocks inside its own crash / alarm handler: the campaign is then cut here)
try:
    r = subprocess.run(cmd, env=env, capture_output=True, text=True, timeout=deadline, cwd=logdir)
    log = r.stderr + r.stdout
except subprocess.TimeoutExpired as e:
    log = 'campaign killed at the outer deadline\n'
    subprocess.run(['pkill', '-f', f'fuzz/.*/{target}'])
open(f'{V}/target/fuzz-{target}.log', 'w').write(log)
execs = cov = ft = corp = 0
for jf in glob.glob(f'{logdir}/fuzz-*.log'):
    t = open(jf, errors='replace').read()
    m = re.search(r'stat::number_of_executed_units:\s*(\d+)', t)
    if m: execs += int(m.group(1))
    for m in re.finditer(r'#\d+\s+\w+\s+cov: (\d+) ft: (\d+) corp: (\d+)', t):
        cov, ft, corp = max(cov, int(m.group(1))), max(ft, int(m.group(2))), max(corp, int(m.group(3)))
stats = {'built': True, 'seconds': seconds, 'seed_files': nseeds, 'workers': ncpu, 'executions': execs, 'coverage_edges': cov, 'features': ft, 'corpus_files': len(os.listdir(work)), 'jobs_run': len(glob.glob(f'{logdir}/fuzz-*.log'))}

# decide every artifact with the stable harness
files = sorted(glob.glob(arts + '*'))
seen, outcomes, exit_code = set(), {'violation': 0, 'known': 0, 'not_reproduced': 0, 'slow_only': 0}, 0
for f in files[:400]:
    data = open(f, 'rb').read()
    h = hashlib.sha1(data).hexdigest()[:10]
    if h in seen: continue
    seen.add(h)
    base = os.path.basename(f)
    if prop == 'C07':
        case = {'Raw': {'hex': data.hex(), 'seal': target == 'loader_crcfix'}}
    elif prop == 'C08':
        case = {'Text': data.decode('utf-8', 'replace')}
    else:
        case = {'Raw': data.decode('utf-8', 'replace')}
    rp = f'{V}/target/tmp/fuzz-{target}-{h}.json'
    os.makedirs(os.path.dirname(rp), exist_ok=True)
    json.dump({'property': prop, 'origin': f'libFuzzer {target} artifact {base}', 'case': case}, open(rp, 'w'), ensure_ascii=False)
    slow = base.startswith(('timeout-', 'slow-unit-', 'oom-'))
    if slow and prop != 'C07':
        outcomes['slow_only'] += 1; continue   # budget overruns are counted, never judged here (the stable tier owns the small-input hang rule)
    if slow and prop == 'C07':
        # the property says the loader never hangs: a 20 s libFuzzer timeout on a file of a few kB is a hang. The stable tier attributes hangs
        # to their culprit; here they are only matched against the listed hang finding (a replay would just hang again)
        kf = [e for e in json.load(open(f'{V}/known_findings.json')) if e['property'] == 'C07' and e['status'] == 'known' and '|hang|' in e['signature']]
        if kf:
            line = f"KNOWN-FINDING: property=C07 {kf[0]['what_fails']} [libFuzzer {target} timeout artifacts]"
            if line not in seen: print(line); seen.add(line)
            outcomes['known'] += 1; continue
        dst = f'{V}/replays/{prop}'; os.makedirs(dst, exist_ok=True); final = f'{dst}/fuzz-{target}-{h}.json'; shutil.copy(rp, final)
        print(f'violation signature: C07|hang|raw (libFuzzer {target}, {base})'); print(f'VIOLATION property={prop} replay={final}')
        outcomes['violation'] += 1; exit_code = 1; continue
    try:
        q = subprocess.run([f'{V}/target/debug/mechcheck', 'replay', rp], env=dict(env, VERIF_DIR=V), capture_output=True, text=True, timeout=30)
        out, rc = q.stdout, q.returncode
    except subprocess.TimeoutExpired:
        out, rc = 'replay did not finish within 30 s', 124
    if rc == 1:
        dst = f'{V}/replays/{prop}'
        os.makedirs(dst, exist_ok=True)
        final = f'{dst}/fuzz-{target}-{h}.json'
        shutil.copy(rp, final)
        sig = next((l for l in out.splitlines() if l.startswith('signature:')), 'signature: ?')
        print(f'violation {sig} (libFuzzer {target}, {base})')
        print(f'VIOLATION property={prop} replay={final}')
        outcomes['violation'] += 1; exit_code = 1
    elif 'KNOWN-FINDING' in out:
        for l in out.splitlines():
            if l.startswith('KNOWN-FINDING') and l not in seen: print(l); seen.add(l)
        outcomes['known'] += 1
    else:
        outcomes['not_reproduced'] += 1
        print(f'note: libFuzzer {target} artifact {base} is not reproduced by the stable harness (kept at {rp})')
        if exit_code == 0: exit_code = 2
stats['artifacts'] = len(seen - {l for l in seen if l.startswith('KNOWN')})
stats['artifact_outcomes'] = outcomes
stats['wall_s'] = round(time.time() - t0, 1)
note_evidence(stats)
print(f"{prop} fuzz target={target} executions={stats.get('executions')} edges={stats.get('coverage_edges')} corpus={stats.get('corpus_files')} artifacts={stats['artifacts']} {outcomes} wall={stats['wall_s']}s")
sys.exit(exit_code)
