#!/usr/bin/env python3
"""keep_seed.py <seed-id> <property> <src-dir> <needs> <caught-by> : files a confirmed seeded fault under /verif/seeded/<seed-id>/"""
import sys, os, shutil, json, re
sid, prop, src, needs, caught = sys.argv[1:6]
dst = '/verif/seeded/' + sid
os.makedirs(dst, exist_ok=True)
for f in ['patch.diff', 'demo.rs', 'notes.md']:
    if os.path.exists(os.path.join(src, f)): shutil.copy(os.path.join(src, f), dst)
conf = open(os.path.join(src, 'confirm.log')).read() if os.path.exists(os.path.join(src, 'confirm.log')) else ''
last = [l for l in conf.splitlines() if 'demo_unmodified_exit' in l]
results = re.findall(r'^test result: .*$', conf, re.M)
open(os.path.join(dst, 'confirm.txt'), 'w').write('\n'.join(results + last) + '\n')
meta = {
  "property": prop,
  "breaks": open(os.path.join(src, 'patch.diff')).read().split('\n')[0],
  "needs_to_manifest": needs,
  "confirmed_by": "tools/confirm_seed.sh in a scratch worktree: demo.rs copied to tests/seed_demo.rs; `cargo test --offline --test seed_demo` on the unmodified tree (expected exit 0), again with patch.diff applied (expected non-zero), then `cargo test --workspace --no-fail-fast --offline` with the patch (expected exit 0)",
  "confirmation": last[-1] if last else "not run",
  "caught_by": caught,
  "origin": "independent sub-agent given only the property text and a scratch worktree",
}
json.dump(meta, open(os.path.join(dst, 'meta.json'), 'w'), indent=1)
print('kept', dst)
