#!/usr/bin/env python3
"""learn.py <Cxx>: merges the `supported:<key>` labels of evidence/<Cxx>.json into baselines/<Cxx>_supported.json
(the table of combinations observed to be supported on the pinned tree)."""
import json, os, sys
pid = sys.argv[1]
if len(sys.argv) > 2 and sys.argv[2] == 'masklen':
    # learn.py <Cxx> masklen: merges the `masklen-accepted:<key>` labels into baselines/<Cxx>_masklen_accepted.json
    ev = json.load(open('/verif/evidence/%s.json' % pid))
    p = '/verif/baselines/%s_masklen_accepted.json' % pid
    cur = set(json.load(open(p))) if os.path.exists(p) else set()
    new = {k[len('masklen-accepted:'):] for k in ev['coverage']['classes'] if k.startswith('masklen-accepted:')}
    json.dump(sorted(cur | new), open(p, 'w'), indent=0)
    print(len(cur), '->', len(cur | new))
    sys.exit(0)
ev = json.load(open('/verif/evidence/%s.json' % pid))
p = '/verif/baselines/%s_supported.json' % pid
cur = set(json.load(open(p))) if os.path.exists(p) else set()
new = {k[len('supported:'):] for k in ev['coverage']['classes'] if k.startswith('supported:')}
json.dump(sorted(cur | new), open(p, 'w'), indent=0)
print(len(cur), '->', len(cur | new))
