#!/usr/bin/env python3
"""Rebuilds baselines/C03_supported.json (union with the existing table) from evidence/C03.json:
every (index forms | storage | kind) combination that evaluated successfully in range."""
import json, os
ev = json.load(open('/verif/evidence/C03.json'))
p = '/verif/baselines/C03_supported.json'
cur = set(json.load(open(p))) if os.path.exists(p) else set()
new = {k[len('supported:'):] for k in ev['coverage']['classes'] if k.startswith('supported:')}
json.dump(sorted(cur | new), open(p, 'w'), indent=0)
print(len(cur), '->', len(cur | new))
