#!/bin/bash
# mk_seed_wt.sh <Cxx> <tag> : scratch worktree /tmp/wt-<Cxx>-<tag> of /repo HEAD with a warm build cache copied from /tmp/wt-base
# (/tmp/wt-base: worktree built once with `cargo test --workspace --no-run --offline`, debug=0, incremental=false in .cargo/config.toml)
set -e
wt=/tmp/wt-$1-$2
[ -d $wt ] && { echo "$wt exists"; exit 0; }
git -C /repo worktree add -q --detach $wt HEAD
cp /tmp/wt-base/.cargo/config.toml $wt/.cargo/config.toml
git -C $wt update-index --assume-unchanged .cargo/config.toml
cp -r /tmp/wt-base/target $wt/target
mkdir -p /tmp/seed-out/$1-$2
echo $wt
