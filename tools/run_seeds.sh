#!/bin/bash
# tools/run_seeds.sh [seed-id ...] : applies each seeded change to /repo, runs the quick check of its property, reverts.
# Prints one line per seed: <id> apply=<ok|FAILED> check_exit=<n> seconds=<s>. Expected check_exit=1 for every seed.
# /repo must be clean before and is clean after (git checkout -- .). Never run while another check is using /repo.
cd /verif
if [ -n "$(git -C /repo status --porcelain)" ]; then echo "/repo is not clean" >&2; exit 3; fi
ids="$@"; [ -z "$ids" ] && ids=$(ls seeded)
for id in $ids; do
  d=seeded/$id
  prop=$(python3 -c "import json;print(json.load(open('$d/meta.json'))['property'])")
  patch=/verif/$d/patch.diff; [ -f $d/patch-current-tree.diff ] && patch=/verif/$d/patch-current-tree.diff
  if git -C /repo apply $patch 2>/dev/null; then
    s=$(date +%s); rm -rf replays/$prop
    ./check $prop quick > target/seed-$id.log 2>&1; rc=$?
    e=$(date +%s)
    echo "$id apply=ok check_exit=$rc seconds=$((e-s)) $(grep -m1 'violation signature' target/seed-$id.log | cut -c1-120)"
  else
    echo "$id apply=FAILED"
  fi
  git -C /repo checkout -- . ; rm -rf replays/$prop
done
./check build
