#!/usr/bin/env python3
"""seed_prompt.py <Cxx> <round-tag> : prints the brief handed to an independent seeding sub-agent.
The brief contains only the property text, the scratch worktree path and (so that a new round does not
repeat an old idea) one line per earlier seeded change of that property. Nothing about /verif's checks."""
import sys, json, glob, os
pid, tag = sys.argv[1], sys.argv[2]
prop = [json.loads(l) for l in open('/verif/properties.jsonl') if json.loads(l)['id'] == pid][0]
prev = []
for d in sorted(glob.glob('/verif/seeded/%s-*/meta.json' % pid)):
    m = json.load(open(d))
    prev.append('- %s (in %s): %s' % (d.split('/')[3], m['breaks'].split(' b/')[-1], m['needs_to_manifest']))
wt = '/tmp/wt-%s-%s' % (pid, tag)
out = '/tmp/seed-out/%s-%s' % (pid, tag)
print(f"""You are helping to evaluate a verification effort for the Rust project mech-lang/mech (the Mech programming language:
nom-based parser, formatter, tree-walking interpreter with a typed matrix stdlib, bytecode compiler/loader). Your job is to act as a
*fault seeder*: produce ONE realistic source change that silently breaks the semantic property below.

Property {pid}: {prop['title']}
{prop['statement']}

Quantifier: {(prop.get('quantifier') or {}).get('text','')}
Code anchors (starting points; you may change code elsewhere if it serves the goal): {json.dumps(prop.get('anchors',''))}

Your scratch git worktree of the project is {wt} (already created, with a warm build cache in {wt}/target). Work ONLY inside that
directory and your output directory {out}. Do NOT read or touch /repo, /verif or any other /tmp/wt-* directory, and do not run
`git worktree` or `git commit` commands. Everything is offline: always prefix cargo with `RUSTC_BOOTSTRAP=1 CARGO_NET_OFFLINE=true` and
pass `--offline`. Disk space is scarce: use only the default dev/test profile exactly as configured in {wt}/.cargo/config.toml (never
`--release`, never a second `--target-dir`, never `CARGO_PROFILE_*`/`RUSTFLAGS` overrides, no `cargo clean`), and do not copy the worktree. Always wrap commands in `timeout` (some Mech inputs hang: parentheses nested deeper than 6, huge ranges, deep
non-tail recursion).

Requirements for the change:
1. It breaks the property above for some inputs (be precise about which), while the project still compiles without new warnings-as-errors.
2. The project's existing test suite still passes with it: `cd {wt} && timeout 3000 env RUSTC_BOOTSTRAP=1 CARGO_NET_OFFLINE=true cargo test --workspace --no-fail-fast --offline`
   (652 tests; you must run this yourself with the change applied and check that nothing fails).
3. It needs something SPECIFIC to manifest — an unusual input, a particular element kind / storage form / shape, a multi-step sequence
   of statements, a fault at a particular point, or two cooperating sites that each look fine alone. It must NOT be something ordinary
   use or the obvious first example would expose at once. Think of a plausible maintainer mistake (a refactor, an "optimisation", a
   copy/paste slip in one macro arm, an off-by-one at a boundary, a swapped pair of arguments in a rarely used arm).
4. It is small (ideally 1-15 changed lines) and looks innocent in review.
5. It must differ in mechanism AND location (different function) from these earlier seeded changes for the same property:
{chr(10).join(prev) if prev else '- (none)'}

Deliverables, all written to {out}/ (create it):
- patch.diff : `git diff` of your change, taken in {wt} (only the source change; no test files).
- demo.rs    : a Rust integration test file that can be copied to {wt}/tests/seed_demo.rs and run with
               `cargo test --offline --test seed_demo`. It must PASS on the unmodified tree and FAIL with your patch applied.
               Include at least one control test that passes in both. Use the public API, e.g.:
                   #![allow(warnings)]
                   use mech_syntax::*; use mech_core::*; use mech_interpreter::*;
                   fn run(src: &str) -> MResult<Value> {{ let tree = parser::parse(src)?; let mut i = Interpreter::new(0); i.interpret(&tree) }}
               (look at {wt}/tests/interpreter.rs and {wt}/tests/bytecode.rs for how the suite's own tests are written; for include
               handling see the tests at the bottom of {wt}/src/mechfs.rs).
- notes.md   : what you changed and why it breaks the property, exactly what is needed for it to manifest, and the commands you ran
               with their results (demo on the unmodified tree, demo with the patch, the full suite with the patch).
When you are done, clean the worktree: run `git -C {wt} checkout -- src machines tests docs` (NOT `git checkout -- .` and never `git stash`:
both would revert {wt}/.cargo/config.toml, which carries the offline / no-debuginfo build settings — if that happens every build
balloons to 10 GB and the shared disk fills up) and delete
{wt}/tests/seed_demo.rs at the end; the patch file is what counts.

Final answer: a short summary (file/function changed, what input manifests it, the three command results).""")
