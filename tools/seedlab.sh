#!/bin/bash
# seedlab.sh sync            : (re)creates /tmp/seedlab = a copy of /verif (without build output) whose engine builds against
#                              /tmp/seedlab/repo, a scratch git worktree of /repo HEAD, so that seeded changes can be tried without
#                              touching /repo or disturbing work in /verif
# seedlab.sh try <seed-dir> <Cxx> [tier] : applies <seed-dir>/patch.diff (or patch-current-tree.diff) to the lab repo, runs the lab's
#                              ./check <Cxx> quick, reverts; prints one summary line; full output in /tmp/seedlab/logs/<name>.log
# seedlab.sh clean           : removes the lab and its worktree
L=${LAB:-/tmp/seedlab}
case "$1" in
  sync)
    mkdir -p $L/logs
    [ -d $L/repo ] || git -C /repo worktree add -q --detach $L/repo HEAD
    git -C $L/repo checkout -q -- . ; git -C $L/repo checkout -q --detach "$(git -C /repo rev-parse HEAD)"
    rsync -a --delete --exclude target --exclude .git --exclude replays --exclude evidence /verif/ $L/verif/
    mkdir -p $L/verif/evidence
    sed -i "s#/repo#$L/repo#g" $L/verif/engine/Cargo.toml $L/verif/engine/mechcheck/Cargo.toml $L/verif/engine/mechfscheck/Cargo.toml
    sed -i "s#/verif/target#$L/verif/target#" $L/verif/engine/.cargo/config.toml
    cp /repo/Cargo.lock $L/verif/engine/Cargo.lock 2>/dev/null
    cp /verif/engine/Cargo.lock $L/verif/engine/Cargo.lock
    ;;
  try)
    d=$2; p=$3; tier=${4:-quick}; name=$(basename $d)
    patch=$d/patch.diff; [ -f $d/patch-current-tree.diff ] && patch=$d/patch-current-tree.diff
    git -C $L/repo checkout -q -- .
    if ! git -C $L/repo apply $patch 2>/dev/null; then echo "$name apply=FAILED"; exit 1; fi
    s=$(date +%s); rm -rf $L/verif/replays/$p
    ( cd $L/verif && ./check $p $tier ) > $L/logs/$name.log 2>&1; rc=$?
    e=$(date +%s)
    git -C $L/repo checkout -q -- .
    echo "$name apply=ok check_exit=$rc seconds=$((e-s)) $(grep 'violation signature' $L/logs/$name.log | cut -c1-110 | head -4 | tr '\n' ';')"
    ;;
  clean) git -C /repo worktree remove --force $L/repo; rm -rf $L ;;
esac
