#!/usr/bin/env python3
"""Regenerates MANIFEST.json from the table below (single source of truth for the interface)."""
import json
CLAIMED = {
 "C01": dict(tech="proptest + stratified enumeration of (operator, kind, form pair); metamorphic oracle matrix-op vs per-element scalar ops, exact big-integer/IEEE/rational scalar model, must-reject generator for incompatible shapes", sec="§3 C01",
             text="Generated-input search over operator x kind x shape-class pairs (every dispatch arm of the dynamic configuration is hit and listed in the evidence) with three oracles: broadcast metamorphic relation, acceptance closure, rejection of incompatible shapes, plus an exact scalar arithmetic model."),
 "C03": dict(tech="proptest-generated (shape, kind, index forms, in/out-of-range values) vs 1-based column-major reference model; supported-form baseline table", sec="§3 C03",
             text="Generated-input search over storage form x element kind x index-form pair x in/out-of-range values against a column-major reference model; the source matrix is re-read after every access."),
 "C04": dict(tech="proptest-generated assignment histories (index forms of C03, scalar/vector sources, op-assign, invalid targets/sources) vs a model copy of the matrix compared after every statement", sec="§3 C04",
             text="Stateful generated-input search: histories of 1-5 assignment statements on a mutable matrix; frame condition, shape, kind, written values and read-back are checked after every statement against a reference copy."),
 "C05": dict(tech="proptest-generated statement histories over 5 names / 13 value families (scalars and matrices of all 14 numeric kinds, plain and annotated); per-statement snapshot comparison (values + mutability) with frame conditions and named-error demands", sec="§3 C05",
             text="Stateful generated-input search: 4-25 statements per session, one interpret() call each; after every statement the whole symbol snapshot is compared with the previous one (failed statements change nothing; successful ones change only their target) and immutables keep their defining value."),
 "C11": dict(tech="proptest-generated tilings of results up to 6x5 / 9x8 (row bands x blocks, scalar/vector/matrix blocks, inline or via variables, perturbed invalid variants) vs block-placement model", sec="§3 C11",
             text="Generated-input search over tilings of results up to 6x5 (9x8 thorough) with position-distinct elements so any misplacement is visible; invalid variants must be rejected."),
 "C12": dict(tech="exhaustive kind-pair and reshape enumeration + proptest values vs exact rational conversion model; supported-conversion baseline table", sec="§3 C12",
             text="All 14x14 kind pairs and all equal-count reshapes up to 16 elements are enumerated; boundary/random values are generated; results are compared with an exact rational model (truncate/clamp, identity on representable values, column-major reshape, distinct-element sets)."),
 "C13": dict(tech="grammar-generated literal spellings (all forms of spec 4.2, suffixes/annotations, negation, kind boundaries) vs exact big-rational value and the host's correctly rounded decimal parser", sec="§3 C13",
             text="Generated-input search over literal spellings; each is evaluated alone and compared with the exact value of its digits (nearest f64/f32, exact based/suffixed integers, reduced rationals, clamp-or-reject for unfit typed literals)."),
 "C14": dict(tech="proptest-generated set pairs over 8-value universes of 8 element kinds with duplicate/alternative spellings, all operators, construction routes and operand forms (literal / variable / expression per side, symbol and word form), comprehension shapes; mathematical-set reference + invariants on every observed set", sec="§3 C14",
             text="Generated-input search: operands written in random order with duplicates and alternative spellings of equal values; results compared with mathematical sets; every observed set must be duplicate-free, of one kind and report its size."),
 "C15": dict(tech="proptest-generated (kind,start,step,end) cases vs exact rational progression model", sec="§3 C15",
             text="Generated-input search: every run draws ranges per kind (on/off grid, near the kind maximum, zero/negative steps, empty/single) and compares the element sequence with an exact rational reference; failures are shrunk by proptest to a replay file."),
 "C16": dict(tech="proptest-generated arm lists (functions and match expressions, guards, tuple / enum / seven array patterns incl. spread with elements on both sides) in every order x all small arguments vs a reference arm evaluator; enumerated recurrences incl. 100 000-deep tail recursion", sec="§3 C16",
             text="Generated-input search over arm lists and their orders with a reference evaluator (first matching arm whose guard holds), recurrences against closed forms in two binding styles, broadcast over matrices, and the error side (arity, no arm, non-exhaustive match)."),
 "C17": dict(tech="proptest-generated transition systems rendered as state machines (guarded lists as one arm or split over two arms of the same state) vs reference simulation; result and state sequence (from [fsm] trace events) compared; ill-formed (wrong argument kind incl. sized vector kinds of the other orientation / length / element kind, undeclared targets, states without arm) and non-terminating variants", sec="§3 C17",
             text="Generated-input search over small machines (guarded branches with overlaps, loops that make progress, array-pattern states) and inputs; the visited state sequence reconstructed from trace events must equal the simulated one; ill-formed machines must be rejected and non-terminating ones stopped by the limit."),
 "C18": dict(tech="proptest-generated table pairs (0-2 shared columns, duplicate keys, five column kinds) x six joins in symbol and word form vs reference relational algebra compared as multisets; row/column selection in order", sec="§3 C18",
             text="Generated-input search over table pairs with many-to-many matches; the join result is compared as a multiset of rows over the union of columns including optional-kind promotion and holes; row selection compared in order."),
 "C02": dict(tech="grammar-generated formulas over all precedence tiers (ASCII and Unicode spellings, unary minus/not, redundant parentheses, matrix operands) vs a reference parser built from the specified tiers; tree shape and evaluated value compared; metamorphic parenthesisation", sec="§3 C02",
             text="Generated-input search over formulas mixing every operator tier; the parse tree's grouping is compared with a reference precedence-climbing parser and the value with the fully parenthesised form."),
 "C06": dict(tech="shared typed program generator (progs.rs: 14 element kinds, typed sets/tables, non-ASCII strings) -> interpret vs compile -> serialise -> load -> run in a fresh interpreter; differential oracle on result; panics keyed by panic site, run rejections by the unregistered plan step", sec="§3 C06",
             text="Differential generated-input search: programs from a typed constructive generator are run directly and through the bytecode route; results, symbol tables and mutability must agree; compile/load failures on supported features are violations keyed by the feature that causes them."),
 "C07": dict(tech="generated programs -> compiled images; structure-aware mutation (header fields, section offsets/sizes, const blob words, chunk swaps, truncation, CRC re-sealing) + byte-level bursts; allocation probe (largest single request bounded by file size); thorough tier adds a coverage-guided libFuzzer stage (loader_raw, loader_crcfix) whose artifacts are decided by the same oracle; oracle: intact image round-trips, damaged image is rejected or loads to the same program, never panics/hangs/over-allocates", sec="§3 C07",
             text="Fault-injection search over serialised programs: every mutant must be rejected with an error or decode to a program equal to the original; panics, watchdog overruns and allocation beyond the address-space cap are violations."),
 "C08": dict(tech="every suite program (642) and .mec file (168) + recursive grammar generator of programs and Mechdown documents (xgen) + 40-construct generator + typed program generator; thorough tier adds a coverage-guided libFuzzer stage (format_roundtrip); round-trip oracle parse -> format -> parse with trees compared modulo source ranges/whitespace tokens, idempotence of format", sec="§3 C08",
             text="Round-trip generated-input search over the whole grammar and the repository's own corpus; any formatted text that fails to parse, parses to a different tree, or changes when formatted again is a violation, localised to the emitter at fault."),
 "C09": dict(tech="token-alphabet strings, Unicode stress strings, token-level mutants and character prefixes of valid programs/documents (corpus + grammar-generated); thorough tier adds a coverage-guided libFuzzer stage (parse_text) decided by the same oracle; validity predicate: no panic, tree or located report, ranges inside the input, format_error total, identical outcome on re-parse from another working directory; per-case watchdog", sec="§3 C09",
             text="Generated-input search over malformed and adversarial text with a validity predicate on the outcome; panics (with source location as signature), uninitialised/out-of-input ranges, non-determinism are violations; budget overruns are counted as timeouts, never judged."),
 "C10": dict(tech="programs from the shared generator woven into Mechdown documents (56 prose elements whose classification is fixed from the pinned tree, unnamed/named/disabled fences); metamorphic oracle: document snapshot == code-only snapshot; per-namespace isolation; containment of four kinds of error (undefined name, failing user-function call, kind mismatch, index out of range) placed in the middle of a namespace", sec="§3 C10",
             text="Metamorphic generated-input search: prose that is prose on its own, woven between code, must not change what the code computes; named fences evaluate in isolated interpreters; an error inside a named fence stays inside."),
 "C19": dict(tech="typed program generator + operator/function zoo (117 one-operator programs, operands inline and through variables); determinism (fresh interpreters, sibling thread), step() idempotence on pure programs, re-evaluation after input change vs from-scratch run; plan-step localisation for signatures", sec="§3 C19",
             text="Generated-input search over programs and re-evaluation schedules: the same program gives the same values in fresh interpreters, re-running the plan of a pure program changes nothing, and results after an input change equal a from-scratch evaluation."),
 "C20": dict(tech="generated include trees (4 files, 3 directories, every edge subset over 3 files as fixed cases, fences of varying marker/length/indent, look-alikes, missing targets, trailing-newline variants) materialised on disk vs a reference expander working on the item lists; watchdog for termination", sec="§3 C20",
             text="Generated-input search over include graphs and file layouts against a reference textual-substitution model; wrong expansion, undetected or falsely reported cycles, misnamed missing files, panics and hangs are violations."),
}
ALL = ["C%02d" % i for i in range(1, 21)]
checks = []
for pid in ALL:
    if pid not in CLAIMED: continue
    c = CLAIMED[pid]
    checks.append({
      "property_id": pid,
      "quick_cmd": "./check %s quick" % pid,
      "thorough_cmd": "./check %s thorough" % pid,
      "evidence_file": "/verif/evidence/%s.json" % pid,
      "replay_cmd_template": "./check replay {path}",
      "engine": "mechfscheck" if pid == "C20" else "mechcheck",
      "level_claimed": {"category": "exploration", "text": c["text"], "design_ref": c["sec"]},
      "level_note": "Trusted base: the harness-side reference model and the observation layer (engine/mechcheck/src/{rval,mech}.rs); harness profile = dev profile semantics (debug assertions + overflow checks on), dynamic storage forms only. Absence is never established: evidence reports what was generated.",
      "technique": c["tech"],
    })
m = {
 "version": 1,
 "setup_cmd": "./check build",
 "hooks": {"guard": "mech_verif", "enable": "no source hooks are used; checks build /repo's crates unmodified through path dependencies (engine/Cargo.toml)", "baseline_off_cmd": "cd /repo && cargo test --workspace --no-fail-fast --offline", "source_commits": [], "add_only": True},
 "engines": [{"name": "mechfscheck", "path": "engine/mechfscheck", "serves_properties": ["C20"], "kind_free_text": "same engine (engine.rs included by path) in a separate binary that links the root `mech` crate for read_mech_source_file"}, {"name": "mechcheck", "path": "engine/mechcheck", "serves_properties": sorted(p for p in CLAIMED if p != "C20"), "kind_free_text": "Rust harness: proptest strategies + shrinking, crash-isolated worker processes under a supervisor with watchdog, reference models, known-finding keyed signatures, replay files"}],
 "checks": checks,
 "not_applicable": [{"property_id": p, "reason": "check not built yet in this session (planned: see DESIGN.md §3); not a claim that the technique cannot apply"} for p in ALL if p not in CLAIMED],
 "notes": "All checks: exit 0 = held on everything explored; exit 1 + VIOLATION line = unknown violation; exit 2 = inconclusive (harness error / crash outside judged domain / >1% timeouts); exit 3 = build failure. Known findings: known_findings.json.",
}
json.dump(m, open("/verif/MANIFEST.json", "w"), indent=1)
print("claimed:", sorted(CLAIMED))
