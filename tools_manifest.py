#!/usr/bin/env python3
"""Regenerates MANIFEST.json from the table below (single source of truth for the interface)."""
import json
CLAIMED = {
 "C15": dict(tech="proptest-generated (kind,start,step,end) cases vs exact rational progression model", sec="§3 C15",
             text="Generated-input search: every run draws ranges per kind (on/off grid, near the kind maximum, zero/negative steps, empty/single) and compares the element sequence with an exact rational reference; failures are shrunk by proptest to a replay file."),
}
ALL = ["C%02d" % i for i in range(1, 21)]
checks = []
for pid in ALL:
    if pid not in CLAIMED: continue
    c = CLAIMED[pid]
    checks.append({
      "property_id": pid,
      "quick_cmd": "./check %s quick" % pid,
      "thorough_cmd": "./check %s thorough" % pid,
      "evidence_file": "/verif/evidence/%s.json" % pid,
      "replay_cmd_template": "./check replay {path}",
      "engine": "mechcheck",
      "level_claimed": {"category": "exploration", "text": c["text"], "design_ref": c["sec"]},
      "level_note": "Trusted base: the harness-side reference model and the observation layer (engine/mechcheck/src/{rval,mech}.rs); harness profile = dev profile semantics (debug assertions + overflow checks on), dynamic storage forms only. Absence is never established: evidence reports what was generated.",
      "technique": c["tech"],
    })
m = {
 "version": 1,
 "setup_cmd": "./check build",
 "hooks": {"guard": "mech_verif", "enable": "no source hooks are used; checks build /repo's crates unmodified through path dependencies (engine/Cargo.toml)", "baseline_off_cmd": "cd /repo && cargo test --workspace --no-fail-fast --offline", "source_commits": [], "add_only": True},
 "engines": [{"name": "mechcheck", "path": "engine/mechcheck", "serves_properties": sorted(CLAIMED), "kind_free_text": "Rust harness: proptest strategies + shrinking, crash-isolated worker processes under a supervisor with watchdog, reference models, known-finding keyed signatures, replay files"}],
 "checks": checks,
 "not_applicable": [{"property_id": p, "reason": "check not built yet in this session (planned: see DESIGN.md §3); not a claim that the technique cannot apply"} for p in ALL if p not in CLAIMED],
 "notes": "All checks: exit 0 = held on everything explored; exit 1 + VIOLATION line = unknown violation; exit 2 = inconclusive (harness error / crash outside judged domain / >1% timeouts); exit 3 = build failure. Known findings: known_findings.json.",
}
json.dump(m, open("/verif/MANIFEST.json", "w"), indent=1)
print("claimed:", sorted(CLAIMED))
